"""C14 / C15: `wire` driver.

C14  RtpsWire.tla (framing of every message shape in the bound: Decode(Encode(m)) = Canon(m)) and
     NumberSet.tla (bitmap <-> set law) are model-checked; every explored case is instantiated on
     the REAL crate by `vh wire replay`, plus seeded random shapes far beyond the bound, plus the
     corpus of datagrams the other drivers captured; Trace_RtpsWire.tla re-derives the framing
     numbers / set membership from the shape and judges every real execution.
C15  ParamList.tla (generic parameter-list codec + one schema table per discovery type): law
     checked on the abstract codec, cases (presence subsets x removed optional parameters x foreign
     parameters x byte order) replayed on the real PL-CDR (de)serialisers; Trace_ParamList.tla
     computes the expected record per field from the schema.
Level claimed: exploration (the specs generate the cases and are the framing / schema oracle; value
equality is a differential check against harness/src/wire.rs)."""
import glob, json, os, time
from common import *

C14 = {
    "quick": dict(mc=[("RtpsWire.tla", "MC_RtpsWire_q.cfg"), ("NumberSet.tla", "MC_NumberSet_q.cfg")], replay_limit=None,
                  random=dict(runs=24000, events=4)),
    "thorough": dict(mc=[("RtpsWire.tla", "MC_RtpsWire_t.cfg"), ("NumberSet.tla", "MC_NumberSet_t.cfg")], replay_limit=400000,
                     random=dict(runs=300000, events=6)),
}
C15 = {
    "quick": dict(mc=[("ParamList.tla", "MC_ParamList_q.cfg")], replay_limit=None, random=dict(runs=6000, events=1)),
    "thorough": dict(mc=[("ParamList.tla", "MC_ParamList_t.cfg")], replay_limit=400000, random=dict(runs=200000, events=1)),
}
KNOWN_ENVS = {"C14": ("KNOWN_C14_X1", "KNOWN_C14_X2"), "C15": ("KNOWN_C15_Y1", "KNOWN_C15_Y2", "KNOWN_C15_Y3")}
TRACE = {"C14": ("Trace_RtpsWire.tla", "Trace_RtpsWire.cfg"), "C15": ("Trace_ParamList.tla", "Trace_ParamList.cfg")}
ASSUME = {
    "C14": [
        "shapes bounded by spec/RtpsWire.tla (every kind x flag combination x 0..2 inline-QoS parameters with value lengths of every residue mod 4 x payload lengths of every residue mod 4 x numBits in {0,1,31,32,33,256}; 2 (quick) / 3 (thorough) submessages per message); random runs go to 6 submessages, 5 parameters, 1.5 kB payloads, any numBits",
        "field values seeded random (sequence numbers up to 2^62, counts over the whole i32 range, non-zero payload / parameter bytes); locators as the crate's Locator type can represent them",
        "each submessage is obtained the way the crate obtains it: MessageBuilder (DATA, DATAFRAG, GAP, HEARTBEAT, INFO_DST, INFO_TS) or the struct's create_submessage (ACKNACK, NACKFRAG, INFO_DST); HEARTBEAT_FRAG, INFO_SRC, INFO_REPLY have no constructor in the default build, their header is made as Heartbeat::create_submessage does",
        "security submessages are out of scope (feature off)",
        "harness/src/wire.rs (written from RTPS 2.5) is trusted as independent reader",
        "a DATAFRAG payload written without trailing alignment padding is accepted when octetsToNextHeader agrees with it (the property asks for agreement and for equality up to padding, not for alignment)",
    ],
    "C15": [
        "schema tables in spec/ParamList.tla transcribed from RTPS 2.5 tables 9.13-9.15 / 8.73-8.78 and the crate's ParameterListable impls; security parameters out of scope (feature off)",
        "defaults asserted only for expects_inline_qos (false) and manual liveliness count (0); other absent parameters must come back as 'absent' (None / empty list) -- the crate keeps absence explicit and applies QoS defaults later",
        "foreign parameters: unknown standard PIDs, vendor-specific PIDs (>= 0x8000, incl. must-understand bit clear), lengths 0..44 (multiples of 4 as RTPS requires on the wire), spliced at any position",
        "field values seeded random within each type's own domain (e.g. Duration, Locator as representable by the crate)",
    ],
}


def collect_cases(outs, path, limit, seed):
    cases = []
    for o in outs:
        for line in o.splitlines():
            if line.startswith('"REPLAY '):
                try:
                    cases.append(json.loads(line)[7:])
                except Exception:
                    pass
    uniq = sorted(set(cases))
    if limit and len(uniq) > limit:
        uniq = random.Random(seed).sample(uniq, limit)
    with open(path, "w") as f:
        for c in uniq:
            f.write('{"seed":%d,"case":%s}\n' % (seed, c))
    return len(uniq)


def corpus_files():
    # datagrams emitted by the real Reader / Writer in the reader, writer and link drivers (plain RTPS messages);
    # the security drivers also write captured_* files, but those hold encoded payloads, not messages
    pats = [os.path.join(ROOT, "fixtures", "wire", "captured_*.hex")]
    for pid in ("C01", "C03", "C04", "C20", "C02", "C05"):
        pats += [os.path.join(OUT, pid, "work", "*", "captured_*.hex"), os.path.join(OUT, pid, "work", "*", "*", "captured_*.hex")]
    files = []
    for p in pats:
        files += glob.glob(p)
    return sorted(f for f in set(files) if os.path.getsize(f) > 0)


def run(pid, tier, seed, replay=None):
    t0 = time.time()
    d = clean_dir(outdir(pid, "work"))
    build_harness()
    cfg = (C14 if pid == "C14" else C15)[tier]
    tmod, tcfg = TRACE[pid]
    mc_detail, outs = [], []
    states = transitions = 0
    stats = {"replayed": 0, "random": 0, "corpus_datagrams": 0}
    extra = {}
    if replay is None:
        for mod, c in cfg["mc"]:
            o, info = tlc(mod, c, os.path.join(d, "tlc_mc"), workers=8, timeout=2400)
            if not info.get("ok"):
                log(o[-2500:])
                if info.get("violated"):
                    # the law fails on the specification itself: the design (not the code) is inconsistent
                    path = write_replay(pid, "replay-model.json", {"property": pid, "why": f"invariant {info['violated']} of {mod} violated", "tlc_tail": o[-3000:]})
                    return finish(pid, [(f"{mod}: invariant {info['violated']} violated on the model", path)], [])
                raise ToolError(f"model checking {c} did not complete cleanly: {info}")
            states += info["states"]; transitions += info["transitions"]
            mc_detail.append({"module": mod, "cfg": c, **{k: info.get(k) for k in ("states", "transitions", "depth", "wall_s")}})
            log(f"[mc] {mod} / {c}: {info['states']} cases, law holds on all of them, {info['wall_s']}s")
            outs.append(o)
        rp = os.path.join(d, "cases.jsonl")
        n = collect_cases(outs, rp, cfg.get("replay_limit"), seed)
        log(f"[gen] {n} cases dumped by TLC for replay on the real code")
        if n:
            p = vh(["wire", "replay", "--in", rp, "--seed", seed, "--jobs", 8, "--out", os.path.join(d, "rep"), "--schema", os.path.join(ROOT, "fixtures", "wire", "schema.json")])
            stats["replayed"] = json.loads(p.stdout.strip().splitlines()[-1])["runs"]
        r = cfg["random"]
        p = vh(["wire", "random", "--prop", pid, "--seed", seed, "--runs", r["runs"], "--events", r["events"], "--jobs", 8, "--out", os.path.join(d, "rnd"), "--schema", os.path.join(ROOT, "fixtures", "wire", "schema.json")])
        stats["random"] = json.loads(p.stdout.strip().splitlines()[-1])["runs"]
        if pid == "C14":
            cf = corpus_files()
            if cf:
                lf = os.path.join(d, "corpus_files.txt")
                with open(lf, "w") as f:
                    f.write("\n".join(cf) + "\n")
                p = vh(["wire", "corpus", "--in", lf, "--out", os.path.join(d, "corpus")])
                cs = json.loads(p.stdout.strip().splitlines()[-1])
                stats["corpus_datagrams"] = cs["datagrams"]
                extra["corpus_submessage_kinds"] = cs.get("submessage_kinds")
                extra["corpus_files"] = len(cf)
                log(f"[corpus] {cs['datagrams']} distinct captured datagrams from {len(cf)} files")
            else:
                log("[corpus] no captured_*.hex files found (run ./bin/check C01 / C04 / C02 first to include real traffic)")
    else:
        with open(replay) as f:
            rj = json.load(f)
        rp = os.path.join(d, "cases.jsonl")
        with open(rp, "w") as f:
            f.write(json.dumps(rj["spec"]) + "\n")
        p = vh(["wire", "replay", "--in", rp, "--seed", seed, "--jobs", 1, "--out", os.path.join(d, "rep"), "--schema", os.path.join(ROOT, "fixtures", "wire", "schema.json")])
        stats["replayed"] = 1
    files = sorted(glob.glob(os.path.join(d, "*", "trace_*.ndjson")))
    kf = known_findings(pid)
    cenv = {name: "0" for name in KNOWN_ENVS[pid]}
    for e in kf:
        if e.get("env"):
            cenv[e["env"]] = "1"
    results = validate_traces(tmod, tcfg, files, pid, jobs=8, constants_env=cenv)
    violations, known_lines, clause_count = [], [], {}
    events = 0
    for res in results:
        events += res["events"]
        if res["stuck_line"] is not None:
            run_no, lines = cut_run(res["file"], res["stuck_line"])
            path = write_replay(pid, f"replay-stuck-{len(violations)}.json", {"property": pid, "why": "event not understood by the trace specification", "spec": recover_spec(res["file"], run_no), "trace": lines})
            violations.append((f"event {res['stuck_line']} of {os.path.relpath(res['file'], ROOT)}: {res.get('stuck_raw', '')[:200]}", path))
        for v in res["viols"]:
            mine = [c for c in v.get("clauses", []) if c.startswith(pid + "_")]
            if not mine:
                continue
            if v.get("kind") == "KNOWN":
                for c in mine:
                    k = next((e for e in kf if e.get("clause") == c), None)
                    msg = f"{k['id']}: {k['what']}" if k else c
                    clause_count[c] = clause_count.get(c, 0) + 1
                    if msg not in known_lines:
                        known_lines.append(msg)
                continue
            for c in mine:
                clause_count[c] = clause_count.get(c, 0) + 1
            if len(violations) >= 40:
                continue
            run_no, lines = cut_run(res["file"], v["line"])
            diag = ""
            try:
                ev = json.loads(lines[-1] if "corpus" not in res["file"] else open(res["file"]).read().splitlines()[v["line"] - 1])
                diag = ev.get("diag", "")[:300]
                if "corpus" in res["file"]:
                    lines = [json.dumps(ev)]
            except Exception:
                pass
            path = write_replay(pid, f"replay-{len(violations)}.json", {"property": pid, "clauses": mine, "spec": recover_spec(res["file"], run_no), "trace": lines})
            violations.append((f"clauses {mine} at event {v['line']} (run {run_no}) of {os.path.relpath(res['file'], ROOT)} {diag}", path))
    total = stats["replayed"] + stats["random"] + stats["corpus_datagrams"]
    sample = []
    if files:
        _, sample = cut_run(files[0], 2)
    # distinct non-trivial: distinct case specifications actually executed
    distinct = set()
    for sf in glob.glob(os.path.join(d, "*", "specs_*.jsonl")):
        with open(sf) as f:
            for line in f:
                distinct.add(hash(line.split('"spec":', 1)[-1]))
    coverage = {
        "evaluations": total, "distinct_nontrivial": len(distinct) + stats["corpus_datagrams"],
        "rule": "one evaluation = one case executed on the real code (construct, serialise, parse, re-serialise, decode with the independent codec) and judged by the trace specification; distinct = distinct case specifications (shape / set / schema case, byte order) + distinct captured datagrams; every case serialises at least one submessage / one parameter list, so none is trivial",
        "samples": [{"trace_of_one_real_run": [json.loads(x) for x in sample[:3]]}],
        "model_checking": mc_detail, "model_cases": states,
        "tlc_cases_replayed_into_impl": stats["replayed"], "random_runs": stats["random"], "corpus_datagrams": stats["corpus_datagrams"],
        "impl_events_validated": events, "clauses_seen": clause_count, **extra,
    }
    if replay is None:
        write_evidence(pid, tier, seed, "exploration", coverage, ASSUME[pid], time.time() - t0, len(violations))
    return finish(pid, violations, known_lines)
