"""C08 / C09: SampleCacheAbs.tla + Trace_SampleCache.tla, `cache` driver.
C08: DataReader forms over intelligible changes (pipeline).  C09: unintelligible changes of every kind,
every form, under a supervisor (a call that does not return is data)."""
import glob, json, os, time
from common import *
from pipeline import run_pipeline

TIERS = {
    "quick": dict(mc=[("MC_SampleCache_q_all.cfg", 8), ("MC_SampleCache_q_d1.cfg", 8), ("MC_SampleCache_q_two.cfg", 8), ("MC_SampleCache_q_rtx.cfg", 8), ("MC_SampleCache_q_bad.cfg", 4)], replay_limit=9000, random=dict(runs=400, events=30)),
    "thorough": dict(mc=[("MC_SampleCache_t_all.cfg", 12), ("MC_SampleCache_t_d2.cfg", 12), ("MC_SampleCache_t_bad.cfg", 12), ("MC_SampleCache_q_d1.cfg", 8), ("MC_SampleCache_q_two.cfg", 8), ("MC_SampleCache_q_rtx.cfg", 8)], replay_limit=30000, random=dict(runs=4000, events=40)),
}
ASSUME = [
    "state space bounded by the constants in spec/MC_SampleCache_*.cfg (instances, writers, arrivals, calls, forms, History depth); in the model arrivals are in order per writer and the reader is best-effort, so hand-over order = reception order",
    "arrivals are listed in the order in which the reader hands them to the DataReader (reliable: per writer in GUID order, C01)",
    "KeepLast is judged as an upper bound; completeness of results only with KeepAll",
    "a dispose by key hash is sent only by the writer that created the instance (otherwise whether the hash is known depends on the hand-over order)",
]


def run(pid, tier, seed, replay=None):
    if pid == "C08":
        return run_pipeline(pid, tier, seed, replay, driver="cache", model="SampleCache.tla",
                            trace_module="Trace_SampleCache.tla", trace_cfg="Trace_SampleCache.cfg",
                            tiers=TIERS, prefixes=("C08_",), assumptions=ASSUME)
    return run_c09(pid, tier, seed, replay)


def run_c09(pid, tier, seed, replay):
    import hostile
    t0 = time.time()
    d = clean_dir(outdir(pid, "work"))
    build_harness()
    n = 330 if tier == "quick" else 2200
    sf = os.path.join(d, "specs.jsonl")
    mc_detail, n_tlc = [], 0
    if replay is None:
        vh(["cache", "gen-c09", "--seed", seed, "--runs", n, "--events", 24, "--out", sf])
        # every sequence (within the bound) of values, disposes and unintelligible changes and calls: model checked
        # (nothing lost behind a bad change, every call returns, errors at most once per bad change) and replayed
        outs = []
        for c, workers in ([("MC_SampleCache_q_bad.cfg", 4), ("MC_SampleCache_q_nk.cfg", 6)] if tier == "quick" else [("MC_SampleCache_q_bad.cfg", 4), ("MC_SampleCache_t_bad.cfg", 12), ("MC_SampleCache_t_nk.cfg", 12)]):
            o, info = tlc("SampleCache.tla", c, os.path.join(d, "tlc_mc"), workers=workers, timeout=3000)
            if not info.get("ok"):
                log(o[-1500:]); raise ToolError(f"model checking {c} did not complete cleanly: {info}")
            mc_detail.append({"cfg": c, **{k: info.get(k) for k in ("states", "transitions", "depth", "wall_s")}})
            log(f"[mc] {c}: {info['states']} distinct states, {info['transitions']} transitions")
            outs.append(o)
        rp = os.path.join(d, "tlc_replays.jsonl")
        n_tlc, _ = extract_replays("\n".join(outs), rp, limit=(2500 if tier == "quick" else 16000), seed=seed)
        with open(sf, "a") as f:
            for line in open(rp):
                r = json.loads(line)
                # the application calls the last form until empty, as the property's "later changes are delivered" demands
                forms = [a["form"] for a in r["acts"] if a.get("a") == "Call"]
                r["acts"].append({"a": "Drain", "form": forms[-1] if forms else "take"})
                f.write(json.dumps(r) + "\n")
        n += n_tlc
        log(f"[gen] {n_tlc} TLC behaviours with unintelligible changes appended, each followed by a drain")
    else:
        rj = json.load(open(replay))
        with open(sf, "w") as f:
            f.write(json.dumps(rj["spec"]) + "\n")
        n = 1
    tf = os.path.join(d, "trace.ndjson")
    deaths = supervise_cache(sf, tf, n)
    results = validate_traces("Trace_SampleCache.tla", "Trace_SampleCache.cfg", [tf], pid, jobs=1)
    specs = [json.loads(l) for l in open(sf)]
    violations, events = [], 0
    for res in results:
        events += res["events"]
        if res["stuck_line"] is not None:
            run_no, lines = cut_run(res["file"], res["stuck_line"])
            violations.append((f"event {res['stuck_line']} not explained: {res.get('stuck_raw','')[:200]}", write_replay(pid, f"replay-stuck-{len(violations)}.json", {"property": pid, "spec": specs[run_no] if run_no is not None and run_no < len(specs) else None, "trace": lines})))
        for v in res["viols"]:
            mine = [c for c in v.get("clauses", []) if c.startswith("C09_")]
            if not mine:
                continue
            run_no, lines = cut_run(res["file"], v["line"])
            path = write_replay(pid, f"replay-{len(violations)}.json", {"property": pid, "clauses": mine, "spec": specs[run_no] if run_no is not None and run_no < len(specs) else None, "trace": lines})
            violations.append((f"clauses {mine} (run {run_no})", path))
    _, sample = cut_run(tf, 2)
    forms = {}
    for s in specs:
        k = f"{s['mode']}:{'rel' if s['reliable'] else 'be'}"
        forms[k] = forms.get(k, 0) + 1
    coverage = {"evaluations": n, "distinct_nontrivial": n - len(deaths),
                "rule": "one run = seeded sequence of values / disposes / unintelligible changes (undecodable payload, unknown representation id, dispose by unseen key hash) from two writers, one read/take form (all DataReader forms, both async streams, SimpleDataReader) called at random points and then until empty; distinct by seed and form index; non-trivial = completed under the supervisor and validated",
                "samples": [{"trace_of_one_real_run": [json.loads(x) for x in sample[:12]]}],
                "runs_per_mode": forms, "impl_events_validated": events, "calls_that_did_not_return": deaths[:10],
                "traces_validated_against_impl": n, "model_checking": mc_detail, "tlc_behaviours_replayed_into_impl": n_tlc,
                "states": sum(m["states"] for m in mc_detail), "transitions": sum(m["transitions"] for m in mc_detail)}
    if replay is None:
        write_evidence(pid, tier, seed, "model_checking" if mc_detail else "exploration", coverage, ASSUME + ["8 s without progress = the call did not return"], time.time() - t0, len(violations))
    return finish(pid, violations, [])


def supervise_cache(specs_file, out_file, n_runs):
    """like hostile.supervise, with the synthetic event of this driver"""
    import subprocess, resource
    exe = build_harness()
    open(out_file, "w").close()
    deaths, start = [], 0
    while start < n_runs:
        p = subprocess.Popen([exe, "cache", "guarded", "--in", specs_file, "--from", str(start), "--out", out_file], stdout=subprocess.DEVNULL, stderr=subprocess.PIPE,
                             preexec_fn=lambda: resource.setrlimit(resource.RLIMIT_AS, (3 << 30, 3 << 30)))
        last_size, last_change, how = -1, time.time(), None
        while True:
            try:
                p.wait(timeout=0.5)
                how = None if p.returncode == 0 else f"exit {p.returncode}"
                break
            except subprocess.TimeoutExpired:
                sz = os.path.getsize(out_file)
                if sz != last_size:
                    last_size, last_change = sz, time.time()
                elif time.time() - last_change > 8:
                    p.kill(); p.wait(); how = "hang"
                    break
        if how is None:
            break
        done, begun = start - 1, None
        for ln in open(out_file).read().splitlines():
            try:
                e = json.loads(ln)
            except Exception:
                continue
            if e.get("ev") == "RunDone":
                done = e["run"]; begun = None
            elif e.get("ev") == "CallBegin":
                begun = e
        died_run = done + 1
        deaths.append({"run": died_run, "how": how, "form": (begun or {}).get("form")})
        with open(out_file, "a") as f:
            sep = (",", ":")
            f.write(json.dumps({"ev": "Reset", "run": died_run, "depth": 0, "reliable": True, "mode": "?"}, separators=sep) + "\n")
            f.write(json.dumps({"ev": "Call", "form": (begun or {}).get("form", "?"), "max": 1, "cond": "any", "scope": "all", "inst": -1, "res": "died", "out": [],
                                "removing": False, "marking": False, "full": False, "viewing": False, "strict": False, "panic": how}, separators=sep) + "\n")
            f.write(json.dumps({"ev": "RunDone", "run": died_run}, separators=sep) + "\n")
        start = died_run + 1
        if len(deaths) >= 6:
            break      # enough evidence; every further hang costs the watchdog interval
    return deaths
