#!/usr/bin/env python3
"""showrun.py trace.ndjson LINE [CONTEXT]: prints the run containing LINE up to LINE (hist abbreviated)"""
import json, sys
L = open(sys.argv[1]).read().splitlines()
line = int(sys.argv[2]); ctx = int(sys.argv[3]) if len(sys.argv) > 3 else 10**6
start = line - 1
while start > 0 and '"ev":"Reset"' not in L[start]: start -= 1
lo = max(start, line - ctx)
print(start + 1, L[start][:200])
for i in range(lo, line):
    e = json.loads(L[i])
    if isinstance(e.get('hist'), list): e['hist'] = f"{e['hist'][:1]}..{e['hist'][-1:]}({len(e['hist'])})"
    print(i + 1, json.dumps(e)[:int(sys.argv[4]) if len(sys.argv) > 4 else 300])
