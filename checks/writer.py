"""C04 / C20: RtpsWriter.tla + WriterAbs.tla + Trace_RtpsWriter.tla, `writer` driver."""
from pipeline import run_pipeline

TIERS = {
    "quick": dict(mc=[("MC_RtpsWriter_q_rel.cfg", 8), ("MC_RtpsWriter_q_vol.cfg", 8), ("MC_RtpsWriter_q_all.cfg", 8), ("MC_RtpsWriter_q_be.cfg", 8)],
                  replay_limit=8000, random=dict(runs=240, events=160)),
    "thorough": dict(mc=[("MC_RtpsWriter_t_rel.cfg", 12), ("MC_RtpsWriter_t_vol.cfg", 12), ("MC_RtpsWriter_t_three.cfg", 12), ("MC_RtpsWriter_t_all.cfg", 12), ("MC_RtpsWriter_q_be.cfg", 8)],
                     replay_limit=120000, random=dict(runs=3000, events=300)),
}
ASSUME = [
    "state space bounded by the constants in spec/MC_RtpsWriter_*.cfg; the model covers unfragmented samples, fragmented ones only in the random runs",
    "timed events (heartbeat, repair, cache cleaning) are fired by the harness through cfg-gated wrappers instead of the wall-clock timer",
    "fake matched readers have one distinct unicast locator each and no multicast locator",
    "a reader does not change its reliability while matched; ACKNACK bases may be arbitrary",
]


def run(pid, tier, seed, replay=None):
    extra = ()
    if pid == "C20":
        # the synchronous public API above the Writer (DataWriter::wait_for_acknowledgments): full command queue,
        # time-out, acknowledgment before the time-out, a wait replaced by a second one, no reader;
        # the asynchronous public API (DataWriter::async_wait_for_acknowledgments) under every interleaving with the
        # Writer: Wakeup.tla scenario "awaitq" (command queue full / nearly full / empty at the first poll, a reliable
        # reader that acknowledges only after the queue was worked off, or none)
        aq = [(f"MC_Wakeup_awaitq_{s}.cfg", 4) for s in ("full", "full_nr", "r2", "r0", "r15")]
        extra = (dict(driver="sched", model="Wakeup.tla", trace_module="Trace_Wakeup.tla", trace_cfg="Trace_Wakeup.cfg",
                      tiers={"quick": dict(mc=aq, random=dict(runs=10, events=1)), "thorough": dict(mc=aq, random=dict(runs=40, events=1))},
                      random_mode="syncwait"),)
    return run_pipeline(pid, tier, seed, replay, driver="writer", model="RtpsWriter.tla",
                        trace_module="Trace_RtpsWriter.tla", trace_cfg="Trace_RtpsWriter.cfg",
                        tiers=TIERS, prefixes=(pid + "_",), assumptions=ASSUME, extra_sources=extra)
