"""C17: SecGate.tla (+ SecGateSem.tla) + Trace_SecGate.tla, `gate` driver: a real MessageReceiver with real
SecurityPlugins (builtin plugins, signed governance fixtures) fed plaintext / wrongly wrapped / correctly
protected datagrams; observed at the readers' topic caches, writer proxies and the acknack channel."""
from pipeline import run_pipeline

TIERS = {
    # *_q / *_t: every reader matched to its peer writer only; *_qx / *_tx: matching configurations in which a writer
    # EntityId is known to several local readers (fan-out of writer submessages without reader id)
    # *_qf / *_tf: shapes of DATA / DATAFRAG (serialized data, serialized key, inline QoS only, both flags, nothing);
    # *_qg / *_tg: governance documents that differ in the DOMAIN rule's discovery / liveliness protection kinds, with
    # the builtin secure endpoints whose submessage protection they decide
    "quick": dict(mc=[("MC_SecGate_q.cfg", 8), ("MC_SecGate_qx.cfg", 8), ("MC_SecGate_qf.cfg", 8), ("MC_SecGate_qg.cfg", 8)],
                  replay_limit=56000, random=dict(runs=400, events=40)),
    "thorough": dict(mc=[("MC_SecGate_t.cfg", 12), ("MC_SecGate_tx.cfg", 12), ("MC_SecGate_tf.cfg", 12), ("MC_SecGate_tg.cfg", 12)],
                     replay_limit=440000, random=dict(runs=6000, events=60)),
}
ASSUME = [
    "datagram model bounded by the constants in spec/MC_SecGate_*.cfg (destinations, kinds, governance documents, "
    "positions per datagram); the receiver state is reset per datagram (MessageReceiver::reset), so one datagram is one behaviour",
    "governance fixtures fixtures/gate/governance_rtps{N,S,E}.p7s: topics T_<metadata><data> with kinds NONE/ENCRYPT/SIGN, "
    "rtps_protection_kind NONE/SIGN/ENCRYPT (discovery = liveliness = ENCRYPT), and governance_<rtps><discovery><liveliness>.p7s "
    "(rtps N/E, discovery and liveliness N/S/E): the domain-level kinds decide the submessage protection of the builtin secure "
    "endpoints DCPSParticipantMessageSecure (liveliness) and DCPSParticipantSecure / DCPSPublicationsSecure / "
    "DCPSSubscriptionsSecure (discovery); origin-authentication kinds not exercised",
    "DATA / DATAFRAG shapes: serialized data, serialized key (K flag), inline QoS only (key hash + status info), both flags, "
    "nothing; payload protection is demanded of every SerializedPayload element (data or key); a DATA without payload has "
    "nothing the payload protection could cover and is left unconstrained for payload-protected readers",
    "the peer is the participant itself registered as its own remote (as SecureDiscovery::new does); correctly protected "
    "traffic is produced with the plugin's own encode operations; cryptographic soundness (mixed prefix/body/postfix of "
    "different submessages do not decode) is C16's subject and only relied upon for the non-vacuity counts",
    "observation: topic cache sequence numbers, writer-proxy received/irrelevant marks (GAP), accepted HEARTBEAT count, "
    "acknack channel; HEARTBEAT_FRAG and NACK_FRAG are not observable there and not exercised",
    "matching configurations (MC_SecGate_*x.cfg, random runs): local readers additionally matched to writers of a second remote "
    "participant that carry the EntityId of another topic's peer writer (rotations: two candidate readers per writer id; full: "
    "all); the second participant has no key material, so flow from it is demanded only for readers needing no protection",
    "delivery of correctly protected traffic is not demanded (C17 does not state it); it is counted as a vacuity guard",
]


def run(pid, tier, seed, replay=None):
    return run_pipeline(pid, tier, seed, replay, driver="gate", model="SecGate.tla",
                        trace_module="Trace_SecGate.tla", trace_cfg="Trace_SecGate.cfg",
                        tiers=TIERS, prefixes=(pid + "_",), assumptions=ASSUME, security=True)
