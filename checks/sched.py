"""C13: Wakeup.tla (five two-thread scenarios, all interleavings) + Trace_Wakeup.tla, `sched` driver
(two real threads under the cooperative scheduler at the cfg-gated yield points)."""
from pipeline import run_pipeline

TIERS = {
    "quick": dict(mc=[(f"MC_Wakeup_{s}.cfg", 4) for s in ("stream", "mio6", "mio8", "awrite", "await", "nk_dv", "nk_vd", "nk_vdv", "nk_ddv", "stream_ohd", "mio6_ohd", "mio8_doh", "stream_hoh", "mio8_oohd")],
                  replay_limit=5000, random=dict(runs=300, events=60)),
    "thorough": dict(mc=[(f"MC_Wakeup_{s}.cfg", 4) for s in ("stream", "mio6", "mio8", "awrite", "await", "nk_dv", "nk_vd", "nk_vdv", "nk_ddv", "stream_ohd", "mio6_ohd", "mio8_doh", "stream_hoh", "mio8_oohd")] + [("MC_Wakeup_stream3.cfg", 8), ("MC_Wakeup_awrite3.cfg", 8), ("MC_Wakeup_nk_vddv.cfg", 8)],
                     replay_limit=40000, random=dict(runs=6000, events=120)),
}
ASSUME = [
    "yield points are placed where the running thread holds no lock the other thread needs; between two yield points a thread runs atomically (lock-release granularity)",
    "the application side of the harness plays a minimal executor: it re-polls only after its recording Waker was invoked, or (mio) when a zero-timeout poll reports an event",
    "command queue capacity 16 and notification channel capacity 4 as created by Publisher / Subscriber; max_blocking_time 1 h so that AsyncWrite does not time out during a run",
]


def run(pid, tier, seed, replay=None):
    return run_pipeline(pid, tier, seed, replay, driver="sched", model="Wakeup.tla",
                        trace_module="Trace_Wakeup.tla", trace_cfg="Trace_Wakeup.cfg",
                        tiers=TIERS, prefixes=(pid + "_",), assumptions=ASSUME)
