"""C13: Wakeup.tla (five two-thread scenarios, all interleavings) + Trace_Wakeup.tla, `sched` driver
(two real threads under the cooperative scheduler at the cfg-gated yield points)."""
import glob, hashlib, json, os
from common import *
from pipeline import run_pipeline

TIERS = {
    "quick": dict(mc=[(f"MC_Wakeup_{s}.cfg", 4) for s in ("stream", "mio6", "mio8", "awrite", "await", "awaitq_full", "awaitq_full_nr", "awaitq_r2", "awaitq_r0", "awaitq_r15", "nk_dv", "nk_vd", "nk_vdv", "nk_ddv", "stream_ohd", "mio6_ohd", "mio8_doh", "stream_hoh", "mio8_oohd")],
                  replay_limit=15000, jobs=12, random=dict(runs=300, events=60)),
    "thorough": dict(mc=[(f"MC_Wakeup_{s}.cfg", 4) for s in ("stream", "mio6", "mio8", "awrite", "await", "awaitq_full", "awaitq_full_nr", "awaitq_r2", "awaitq_r0", "awaitq_r15", "nk_dv", "nk_vd", "nk_vdv", "nk_ddv", "stream_ohd", "mio6_ohd", "mio8_doh", "stream_hoh", "mio8_oohd")] + [("MC_Wakeup_stream3.cfg", 8), ("MC_Wakeup_awrite3.cfg", 8), ("MC_Wakeup_nk_vddv.cfg", 8)],
                     replay_limit=40000, random=dict(runs=6000, events=120)),
}
ASSUME = [
    "yield points are placed where the running thread holds no lock the other thread needs; between two yield points a thread runs atomically (lock-release granularity)",
    "the application side of the harness plays a minimal executor: it re-polls only after its recording Waker was invoked, or (mio) when a zero-timeout poll reports an event",
    "command queue capacity 16 and notification channel capacity 4 as created by Publisher / Subscriber; max_blocking_time 1 h so that AsyncWrite does not time out during a run",
]


def lockstep(d):
    """Step-by-step conformance of the real threads with Wakeup.tla (Trace_WakeupSteps.tla): is the model that TLC checked a
    model of this code, yield point by yield point?  The runs are grouped by the constants of Wakeup.tla they were made with.
    A divergence is not a violation of C13 (the verdict on lost wake-ups is taken on where every run ends, by
    Trace_Wakeup.tla); it says that the code between two yield points no longer does what the model's action does, so the
    exhaustive result no longer carries over, and is reported as such."""
    groups = {}
    for sub in sorted(glob.glob(os.path.join(d, "*"))):
        if not os.path.isdir(sub):
            continue
        specs = {}
        for sf in glob.glob(os.path.join(sub, "specs_*.jsonl")):
            for ln in open(sf):
                r = json.loads(ln)
                specs[r["run"]] = r["spec"]
        for tf in sorted(glob.glob(os.path.join(sub, "trace_*.ndjson"))):
            cur = None
            for ln in open(tf):
                e = json.loads(ln)
                if e["ev"] == "Reset":
                    sp = specs.get(e["run"])
                    # the un-keyed non-bare stream goes through DataReader::take, whose yield point sits elsewhere than the
                    # model's (grain mismatch): judged by its end states only
                    if sp is None or sp["scenario"] in ("syncwait", "nkstream"):
                        cur = None
                        continue
                    # the driver holds a "D" back like an "O" while a lower number is missing: say so to the model
                    scr, missing = [], False
                    for k in sp.get("script", []):
                        if k == "H":
                            missing = False; scr.append("H")
                        elif k == "O" or missing:
                            missing = True; scr.append("O")
                        else:
                            scr.append("D")
                    key = json.dumps([sp["scenario"], sp["n"], sp.get("kinds", []), scr, sp.get("readers", 0)])
                    cur = groups.setdefault(key, [])
                    e["src"] = os.path.basename(sub)
                if cur is not None:
                    cur.append(e)
    sd = clean_dir(os.path.join(d, "steps"))
    files = []
    for key, evs in sorted(groups.items()):
        sc, n, kinds, script, readers = json.loads(key)
        f = os.path.join(sd, f"steps_{sc}_{hashlib.sha1(key.encode()).hexdigest()[:10]}.ndjson")
        with open(f, "w") as fh:
            fh.write(json.dumps({"ev": "Config", "scenario": sc, "N": n, "kinds": kinds, "script": script, "readers": readers}) + "\n")
            for e in evs:
                fh.write(json.dumps(e) + "\n")
        files.append(f)
    res = validate_traces("Trace_WakeupSteps.tla", "Trace_WakeupSteps.cfg", files, "C13", jobs=12)
    diverged = []
    for r in res:
        if r["stuck_line"] is not None:
            try:
                ev = open(r["file"]).read().splitlines()[r["stuck_line"] - 1]
            except Exception:
                ev = ""
            diverged.append({"file": os.path.relpath(r["file"], ROOT), "line": r["stuck_line"], "event": ev[:200]})
            log(f"MODEL-DIVERGENCE (not a verdict on C13): {os.path.relpath(r['file'], ROOT)} line {r['stuck_line']}: {ev[:160]}")
    log(f"[lockstep] {len(res) - len(diverged)} of {len(res)} configurations conform to Wakeup.tla step by step ({sum(r['events'] for r in res)} events)")
    return {"lockstep_with_model": {"configurations": len(res), "conforming": len(res) - len(diverged), "events": sum(r["events"] for r in res), "diverged": diverged[:10]}}


def run(pid, tier, seed, replay=None):
    return run_pipeline(pid, tier, seed, replay, driver="sched", model="Wakeup.tla",
                        trace_module="Trace_Wakeup.tla", trace_cfg="Trace_Wakeup.cfg",
                        tiers=TIERS, prefixes=(pid + "_",), assumptions=ASSUME, extra_coverage=lockstep)
