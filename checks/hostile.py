"""C06: hostile field values and mangled framing, in reachable protocol states, against the real
Reader (through MessageReceiver) and the real Writer; measured per injection: panic, wall time,
bytes allocated, process death / hang; the well-behaved peers' traffic before and after must still be
a behaviour of the specification (non-interference).  The harness runs under a supervisor with an
address-space limit and a progress watchdog, so a crash or hang of the code under test is data."""
import glob, json, os, resource, subprocess, time
from common import *

MEM_LIMIT = 3 << 30
STALL_S = 8


def supervise(driver, specs_file, out_file, n_runs):
    """Runs `vh <driver> guarded` restarting after every death/hang; returns list of deaths."""
    exe = build_harness()
    open(out_file, "w").close()
    deaths = []
    start = 0
    def limits():
        resource.setrlimit(resource.RLIMIT_AS, (MEM_LIMIT, MEM_LIMIT))
    while start < n_runs:
        p = subprocess.Popen([exe, driver, "guarded", "--in", specs_file, "--from", str(start), "--out", out_file],
                             stdout=subprocess.DEVNULL, stderr=subprocess.PIPE, preexec_fn=limits)
        last_size, last_change, how = -1, time.time(), None
        while True:
            try:
                p.wait(timeout=0.5)
                how = None if p.returncode == 0 else f"exit {p.returncode}"
                break
            except subprocess.TimeoutExpired:
                sz = os.path.getsize(out_file)
                if sz != last_size:
                    last_size, last_change = sz, time.time()
                elif time.time() - last_change > STALL_S:
                    p.kill(); p.wait(); how = "hang"
                    break
        err = (p.stderr.read() or b"").decode(errors="replace")[-400:]
        # where are we?
        done, begun = start - 1, None
        with open(out_file) as f:
            lines = f.read().splitlines()
        cur_run = None
        for ln in lines:
            try:
                e = json.loads(ln)
            except Exception:
                continue
            if e.get("ev") == "RunDone":
                done = e["run"]; begun = None
            elif e.get("ev") == "HostileBegin":
                begun = e
        if how is None:
            break
        died_run = done + 1
        deaths.append({"run": died_run, "how": how, "cls": (begun or {}).get("cls"), "stderr": err})
        with open(out_file, "a") as f:
            # the events of the dying run were not flushed: record the death as the outcome of the injection
            if driver == "reader":
                f.write(json.dumps({"ev": "Reset", "run": died_run, "reliable": True}, separators=(",", ":")) + "\n")
                f.write(json.dumps({"ev": "Hostile", "cls": (begun or {}).get("cls", "?"), "w": 3, "n": 0, "len": 0, "panic": False, "msg": err[-200:], "us": 0, "alloc": 0, "died": how, "sock": False}) + "\n")
            else:
                f.write(json.dumps({"ev": "Reset", "run": died_run, "rel": True, "vol": False, "depth": 2}, separators=(",", ":")) + "\n")
                f.write(json.dumps({"ev": "Hostile", "cls": (begun or {}).get("cls", "?"), "r": 3, "n": 0, "len": 0, "panic": False, "msg": err[-200:], "us": 0, "alloc": 0, "died": how, "hist": [], "done": False}) + "\n")
            f.write(json.dumps({"ev": "RunDone", "run": died_run}) + "\n")
        start = died_run + 1
        if len(deaths) >= 40:
            break      # enough evidence; every further hang costs the watchdog interval
    return deaths


def strip_markers(path):
    """HostileBegin markers of runs that completed are kept (the trace spec skips them)."""
    return path


def run(pid, tier, seed, replay=None):
    t0 = time.time()
    d = clean_dir(outdir(pid, "work"))
    build_harness()
    n_r = 324 if tier == "quick" else 1620   # 4 rounds over the classes: (matched | not) x (direct | through socket + UDPListener)
    n_w = 72 if tier == "quick" else 480
    results, deaths_all, stats = [], [], {}
    sources = [("reader", n_r, "Trace_RtpsReader.tla", "Trace_RtpsReader.cfg"), ("writer", n_w, "Trace_RtpsWriter.tla", "Trace_RtpsWriter.cfg")]
    specfiles = {}
    mc_detail = []
    tlc_specs = []
    if replay is None:
        # TLC places one hostile step of every class at every reachable protocol state (depth <= 4)
        outs = []
        for c in (["MC_RtpsReader_hostile_m.cfg", "MC_RtpsReader_hostile_u.cfg"]):
            o, info = tlc("RtpsReader.tla", c, os.path.join(d, "tlc_mc"), workers=8, timeout=1500)
            if not info.get("ok"):
                log(o[-1500:]); raise ToolError(f"model checking {c} failed: {info}")
            mc_detail.append({"cfg": c, **{k: info.get(k) for k in ("states", "transitions", "depth", "wall_s")}})
            log(f"[mc] {c}: {info['states']} distinct states, {info['transitions']} transitions")
            outs.append(o)
        rp = os.path.join(d, "tlc_replays.jsonl")
        extract_replays("\n".join(outs), rp, limit=None, seed=seed)
        import random as _r
        rnd = _r.Random(seed)
        allr = [json.loads(l) for l in open(rp)]
        allr = [r for r in allr if any(a.get("a") == "Hostile" for a in r["acts"])]
        rnd.shuffle(allr)
        allr = allr[: (400 if tier == "quick" else 6000)]
        suffix = [{"a": "Data", "w": 1, "sn": 1}, {"a": "DataFrag", "w": 1, "sn": 2, "fs": 1, "fc": 1, "tot": 2}, {"a": "DataFrag", "w": 1, "sn": 2, "fs": 2, "fc": 1, "tot": 2},
                  {"a": "Data", "w": 1, "sn": 3}, {"a": "Heartbeat", "w": 1, "first": 1, "last": 3, "count": 50, "fin": False}, {"a": "Take", "max": 1000}]
        for r in allr:
            if not any(a.get("a") == "Match" and a.get("w") == 1 for a in r["acts"]):
                r["acts"] = r["acts"] + [{"a": "Match", "w": 1}]
            r["acts"] = r["acts"] + suffix
        tlc_specs = allr
        log(f"[gen] {len(allr)} TLC behaviours with a hostile step, each extended by a valid suffix")
        # fragment geometry chosen by the peer (FragAssembly.tla): the arithmetic stays in bounds on the model for every
        # sequence of headers, and every sequence is sent to the real Reader
        fc = "MC_FragAssembly_q.cfg" if tier == "quick" else "MC_FragAssembly_t.cfg"
        o, info = tlc("FragAssembly.tla", fc, os.path.join(d, "tlc_mc"), workers=8, timeout=1500)
        if not info.get("ok"):
            log(o[-1500:]); raise ToolError(f"model checking {fc} failed: {info}")
        mc_detail.append({"cfg": fc, **{k: info.get(k) for k in ("states", "transitions", "depth", "wall_s")}})
        seqs = set()
        for line in o.splitlines():
            if line.startswith('"REPLAY '):
                try:
                    seqs.add(",".join(json.loads(json.loads(line)[len("REPLAY "):])["geom"]))
                except Exception:
                    pass
        seqs = sorted(seqs)
        # a sequence that is a proper prefix of another one adds nothing
        seqs = [q for q in seqs if not any(o2.startswith(q + ",") for o2 in seqs[seqs.index(q) + 1: seqs.index(q) + 40])]
        rnd.shuffle(seqs)
        seqs = seqs[: (6400 if tier == "quick" else 30000)]
        per = 16
        geom_specs = []
        for i in range(0, len(seqs), per):
            acts = [{"a": "Match", "w": 1}] + ([{"a": "Match", "w": 3}] if (i // per) % 4 != 3 else [])
            acts += [{"a": "Data", "w": 1, "sn": 1}, {"a": "Hostile", "w": 3, "cls": "geom:" + ";".join(seqs[i:i + per])}]
            acts += [{"a": "DataFrag", "w": 1, "sn": 2, "fs": 1, "fc": 1, "tot": 2}, {"a": "DataFrag", "w": 1, "sn": 2, "fs": 2, "fc": 1, "tot": 2},
                     {"a": "Data", "w": 1, "sn": 3}, {"a": "Heartbeat", "w": 1, "first": 1, "last": 3, "count": 50, "fin": False}, {"a": "Take", "max": 1000}]
            geom_specs.append({"reliable": True, "acts": acts, "via_socket": (i // per) % 8 == 5})
        tlc_specs = tlc_specs + geom_specs
        log(f"[gen] {len(seqs)} DATAFRAG header sequences from {fc} ({info['states']} states) in {len(geom_specs)} runs")
    for driver, n, tm, tc in sources:
        sf = os.path.join(d, f"{driver}_specs.jsonl")
        if replay is None:
            vh([driver, "hostile-gen", "--seed", seed, "--runs", n, "--out", sf])
            if driver == "reader" and tlc_specs:
                with open(sf, "a") as f:
                    for r in tlc_specs:
                        f.write(json.dumps(r) + "\n")
                n += len(tlc_specs)
        else:
            rj = json.load(open(replay))
            if rj.get("driver") != driver:
                continue
            with open(sf, "w") as f:
                f.write(json.dumps(rj["spec"]) + "\n")
            n = 1
        specfiles[driver] = sf
        tf = os.path.join(d, f"{driver}_trace.ndjson")
        deaths = supervise(driver, sf, tf, n)
        deaths_all += [dict(x, driver=driver) for x in deaths]
        stats[driver] = {"runs": n, "deaths": len(deaths)}
        results += [dict(r, driver=driver) for r in validate_traces(tm, tc, [tf], pid, jobs=2)]
    # the event-loop plumbing between MessageReceiver and the writers: a well-behaved reader's acknowledgments must still
    # reach the local writer when another peer sends ACKNACKs of the hostile catalogue (real DPEventLoop, real Poll)
    ev_results = []
    rj = json.load(open(replay)) if replay is not None else None
    if replay is None or rj.get("driver") == "disc":
        ed = os.path.join(d, "evloop")
        if replay is None:
            n_e = 64 if tier == "quick" else 640
            vh(["disc", "hostile", "--seed", seed, "--runs", n_e, "--jobs", 4, "--out", ed])
        else:
            rp = os.path.join(d, "evloop_replay.jsonl")
            with open(rp, "w") as f:
                f.write(json.dumps(rj["spec"]) + "\n")
            vh(["disc", "replay", "--in", rp, "--jobs", 1, "--out", ed])
            n_e = 1
        ev_results = validate_traces("Trace_Discovery.tla", "Trace_Discovery.cfg", sorted(glob.glob(os.path.join(ed, "trace_*.ndjson"))), pid, jobs=4, constants_env={"KNOWN_S8": "0"})
        stats["evloop"] = {"runs": n_e, "deaths": 0}
    kf = known_findings(pid)
    violations, known_lines, classes_seen, events = [], [], {}, 0
    for res in ev_results:
        events += res["events"]
        for v in res["viols"]:
            mine = [c for c in v.get("clauses", []) if c.startswith("C06_")]
            if not mine:
                continue
            run_no, lines = cut_run(res["file"], v["line"])
            cls = next((json.loads(ln).get("cls") for ln in lines if json.loads(ln).get("ev") == "HostileAck"), None)
            sig = f"evloop:{cls}:{mine[0]}"
            classes_seen[sig] = classes_seen.get(sig, 0) + 1
            path = write_replay(pid, f"replay-{len(violations)}.json", {"property": pid, "driver": "disc", "signature": sig, "spec": recover_spec(res["file"], run_no), "trace": lines})
            violations.append((f"{sig} (run {run_no})", path))
        if res["stuck_line"] is not None:
            run_no, lines = cut_run(res["file"], res["stuck_line"])
            path = write_replay(pid, f"replay-stuck-{len(violations)}.json", {"property": pid, "driver": "disc", "why": "event not explained", "spec": recover_spec(res["file"], run_no), "trace": lines})
            violations.append((f"evloop: event {res['stuck_line']} not explained: {res.get('stuck_raw','')[:200]}", path))
    for res in results:
        events += res["events"]
        specs = [json.loads(l) for l in open(specfiles[res["driver"]])]
        if res["stuck_line"] is not None:
            run_no, lines = cut_run(res["file"], res["stuck_line"])
            path = write_replay(pid, f"replay-stuck-{len(violations)}.json", {"property": pid, "driver": res["driver"], "why": "valid traffic of the well-behaved peer is no longer a behaviour of the spec after the hostile datagram (interference)", "spec": specs[run_no] if run_no is not None and run_no < len(specs) else None, "trace": lines})
            violations.append((f"{res['driver']}: event {res['stuck_line']} not explained by the spec: {res.get('stuck_raw','')[:200]}", path))
        for v in res["viols"]:
            run_no, lines = cut_run(res["file"], v["line"])
            hostile_cls = None
            for ln in lines:
                e = json.loads(ln)
                if e.get("ev") == "Hostile":
                    hostile_cls = e.get("cls")
            for c in v.get("clauses", []):
                # C06 proper, or any clause of the well-behaved peer's properties broken in a hostile run = interference
                name = c if c.startswith("C06_") else "C06_interference_" + c
                if res["driver"] == "writer" and not c.startswith("C06_"):
                    continue   # the writer spec does not model the hostile peer's acknowledgments: only C06 clauses count there
                sig = f"{res['driver']}:{hostile_cls}:{name}"
                classes_seen[sig] = classes_seen.get(sig, 0) + 1
                k = next((e for e in kf if sig in e.get("signatures", [])), None)
                if k is not None:
                    msg = f"{k['id']}: {k['what']} [{sig}]"
                    if msg not in known_lines:
                        known_lines.append(msg)
                    continue
                spec = specs[run_no] if run_no is not None and run_no < len(specs) else None
                path = write_replay(pid, f"replay-{len(violations)}.json", {"property": pid, "driver": res["driver"], "signature": sig, "spec": spec, "trace": lines})
                violations.append((f"{sig} (run {run_no})", path))
    total = sum(s["runs"] for s in stats.values())
    sample = []
    for res in results[:1]:
        _, sample = cut_run(res["file"], 2)
    coverage = {
        "evaluations": total, "distinct_nontrivial": total,
        "rule": "one run = (hostile class of harness/src/hostile.rs) x (peer matched or not) x (seeded valid-traffic prefix/suffix); distinct by construction (class index, matched flag, prefix); non-trivial = contains a hostile injection followed by valid traffic that must still be accepted by the specification",
        "samples": [{"trace_of_one_real_run": [json.loads(x) for x in sample[:14]]}],
        "hostile_classes_reader": len(__import__('re').findall(r'"', "")) or None,
        "per_driver": stats, "model_checking": mc_detail, "tlc_behaviours_replayed_into_impl": len(tlc_specs), "impl_events_validated": events, "process_deaths": deaths_all[:20],
        "signatures_flagged": classes_seen,
    }
    coverage.pop("hostile_classes_reader")
    assumptions = ["well-framed messages with hostile fields and the listed manglings only (arbitrary byte strings are fuzzing, another technique)",
                   "budgets: 250 ms and 1 MiB + 256 x datagram bytes per injection; address-space limit 3 GiB; 8 s without progress = hang",
                   "log output disabled (no logger installed), so formatting of warnings is not counted"]
    if replay is None:
        write_evidence(pid, tier, seed, "exploration", coverage, assumptions, time.time() - t0, len(violations))
    return finish(pid, violations, known_lines)
