"""Shared machinery for all checks: harness build, TLC runs (model checking, behaviour generation,
trace validation), evidence files, known findings.  Python 3 standard library only."""
import json, os, re, subprocess, sys, time, hashlib, random, shutil, glob, signal, tempfile
from concurrent.futures import ThreadPoolExecutor

ROOT = os.path.dirname(os.path.dirname(os.path.abspath(__file__)))
SPEC = os.path.join(ROOT, "spec")
HARNESS = os.path.join(ROOT, "harness")
OUT = os.path.join(ROOT, "out")
EVID = os.path.join(ROOT, "evidence")
TLC_ENV_TRACE = "-Xss1g -Dtlc2.tool.queue.IStateQueue=StateDeque"


class ToolError(Exception):
    pass


def log(*a):
    print(*a, flush=True)


def outdir(pid, sub=None):
    d = os.path.join(OUT, pid) if sub is None else os.path.join(OUT, pid, sub)
    os.makedirs(d, exist_ok=True)
    return d


def clean_dir(d):
    shutil.rmtree(d, ignore_errors=True)
    os.makedirs(d, exist_ok=True)
    # stale replay files of an earlier run of this property
    parent = os.path.dirname(d)
    if os.path.basename(d) == "work":
        for f in os.listdir(parent):
            if f.startswith("replay-") and f.endswith(".json"):
                os.remove(os.path.join(parent, f))
    return d


# ------------------------------------------------------------------ harness
_built = {}


def build_harness(security=False):
    """(Re)build the harness against /repo's current working tree with hooks enabled."""
    key = "sec" if security else "std"
    if key in _built:
        return _built[key]
    cmd = ["cargo", "build", "--offline"]
    tdir = "target"
    if security:
        cmd += ["--features", "security", "--target-dir", "target-sec"]
        tdir = "target-sec"
    t0 = time.time()
    env = dict(os.environ, CARGO_NET_OFFLINE="true")
    p = subprocess.run(cmd, cwd=HARNESS, env=env, stdout=subprocess.PIPE, stderr=subprocess.STDOUT, text=True)
    if p.returncode != 0:
        log(p.stdout[-6000:])
        raise ToolError("harness build failed")
    exe = os.path.join(HARNESS, tdir, "debug", "vh")
    log(f"[build] harness ({key}) ok in {time.time()-t0:.1f}s")
    _built[key] = exe
    return exe


class HarnessDeath(Exception):
    """The harness process was killed by the code under test (abort, stack overflow, out of memory, a panic that
    escaped, a run that never ends).  deaths: list of dict(run, how, spec, cmd); every one was reproduced alone."""
    def __init__(self, deaths):
        Exception.__init__(self, f"{len(deaths)} run(s) kill the harness process")
        self.deaths = deaths


def _how(rc):
    if rc is None:
        return "no progress (run does not end)"
    if rc < 0:
        try:
            return "killed by " + signal.Signals(-rc).name
        except Exception:
            return f"killed by signal {-rc}"
    return f"exit code {rc}"


def _watched(cmd, env, timeout, out_dir, stall):
    """runs cmd; returns (returncode or None when killed for lack of progress, stdout, stderr)"""
    so, se = tempfile.TemporaryFile(mode="w+"), tempfile.TemporaryFile(mode="w+")
    p = subprocess.Popen(cmd, stdout=so, stderr=se, text=True, env=env)
    t0 = last = time.time()
    sig = None
    rc = None
    while True:
        try:
            rc = p.wait(timeout=1.0)
            break
        except subprocess.TimeoutExpired:
            pass
        now = time.time()
        if now - t0 > timeout:
            p.kill(); p.wait()
            raise ToolError(f"{' '.join(cmd[1:4])} ... timed out after {timeout}s")
        if out_dir and stall:
            cur = sorted(glob.glob(os.path.join(out_dir, "current_*")))
            s2 = tuple(open(c).read() for c in cur) if cur else None
            if s2 != sig:
                sig, last = s2, now
            elif cur and now - last > stall:
                p.kill(); p.wait()
                rc = None
                break
    so.seek(0); se.seek(0)
    return rc, so.read(), se.read()


def vh(args, security=False, timeout=3600, env=None, check=True, stall=900):
    """Runs the harness.  A process that dies (signal, escaped panic) or stops making progress while it works through
    runs (util::run_parallel leaves current_<j> markers) is data, not a tool error: the runs in flight are re-run one by
    one, and those that kill the process again are raised as HarnessDeath (bin/check turns them into VIOLATION lines)."""
    exe = build_harness(security)
    e = dict(os.environ)
    if env:
        e.update(env)
    args = [str(a) for a in args]
    out_dir = args[args.index("--out") + 1] if "--out" in args else None
    if out_dir and (os.path.isfile(out_dir) or "--only" in args):
        out_dir = None
    if out_dir:
        for c in glob.glob(os.path.join(out_dir, "current_*")):
            os.remove(c)
    rc, so, se = _watched([exe] + args, e, timeout, out_dir, stall)
    p = subprocess.CompletedProcess(args, rc if rc is not None else -9, so, se)
    if rc == 0 or not check:
        return p
    log(so[-3000:])
    log(se[-3000:])
    cur = sorted(glob.glob(os.path.join(out_dir, "current_*"))) if out_dir else []
    died = rc is None or rc < 0 or rc in (101, 134, 137, 139)
    if died and cur:
        cands = []
        for c in cur:
            t = open(c).read().strip()
            if t.isdigit():
                cands.append(int(t))
        deaths = []
        for k in sorted(set(cands)):
            od = os.path.join(out_dir, f"only_{k}")
            a2 = list(args)
            a2[a2.index("--out") + 1] = od
            if "--jobs" in a2:
                a2[a2.index("--jobs") + 1] = "1"
            a2 += ["--only", str(k)]
            rc2, so2, se2 = _watched([exe] + a2, e, 1800, od, min(stall, 300))
            if rc2 != 0:
                spec = None
                try:
                    spec = json.load(open(os.path.join(od, "only_spec.json")))
                except Exception:
                    pass
                deaths.append({"run": k, "how": _how(rc2), "spec": spec, "cmd": ["vh"] + a2, "stderr_tail": se2[-1500:]})
                log(f"[death] run {k} alone: {_how(rc2)}")
        if deaths:
            raise HarnessDeath(deaths)
        raise ToolError(f"vh {' '.join(args)}: {_how(rc)}, not reproduced by any of the runs in flight ({cands})")
    raise ToolError(f"vh {' '.join(args)} exited {rc}")


# ---------------------------------------------------------------------- TLC
def tlc(module, cfg, metadir, workers=8, timeout=1800, env=None, extra=None, simulate=None, heap="8g"):
    """Runs TLC; returns (stdout, info) with info = dict(states, distinct, depth, ok, error)."""
    clean_dir(metadir)
    e = dict(os.environ)
    jopts = f"-Xmx{heap}"
    if env:
        if "JAVA_TOOL_OPTIONS" in env:
            jopts = env["JAVA_TOOL_OPTIONS"] + " " + jopts
        e.update(env)
    e["JAVA_TOOL_OPTIONS"] = jopts
    cmd = ["timeout", str(timeout), "tlc", "-workers", str(workers), "-metadir", metadir, "-cleanup", "-noGenerateSpecTE"]
    if simulate:
        cmd += ["-simulate", simulate]
    if extra:
        cmd += extra
    cmd += ["-config", cfg, module]
    t0 = time.time()
    p = subprocess.run(cmd, cwd=SPEC, env=e, stdout=subprocess.PIPE, stderr=subprocess.STDOUT, text=True)
    out = p.stdout
    info = {"wall_s": round(time.time() - t0, 1), "rc": p.returncode}
    mm = re.findall(r"^([\d,]+) states generated, ([\d,]+) distinct states found", out, re.M)
    if mm:
        info["transitions"] = int(mm[-1][0].replace(",", ""))
        info["states"] = int(mm[-1][1].replace(",", ""))
    m = re.search(r"The depth of the complete state graph search is (\d+)", out)
    if m:
        info["depth"] = int(m.group(1))
    info["ok"] = "Model checking completed. No error has been found." in out or (simulate and p.returncode in (0,))
    errs = re.findall(r"Error: (.*)", out)
    info["errors"] = errs
    inv = re.findall(r"Invariant (\S+) is violated", out)
    info["violated"] = inv
    if p.returncode == 124:
        raise ToolError(f"TLC timeout on {cfg}")
    shutil.rmtree(metadir, ignore_errors=True)
    return out, info


def parse_tla_tuple_line(line):
    """<<"VIOL", "line", 42, "run", 0, "clauses", {"a","b"}>> -> dict"""
    d = {}
    m = re.search(r'"line", (\d+)', line)
    if m:
        d["line"] = int(m.group(1))
    m = re.search(r'"run", (-?\d+)', line)
    if m:
        d["run"] = int(m.group(1))
    m = re.search(r'"clauses", \{(.*?)\}', line)
    if m:
        d["clauses"] = re.findall(r'"([^"]+)"', m.group(1))
    return d


def validate_traces(trace_module, cfg, files, pid, jobs=8, timeout=1800, constants_env=None):
    """Validates each ndjson file with its own TLC JVM (parallel).  Returns list of results:
    dict(file, events, ok, stuck_line, viols=[{line,run,clauses}])"""
    def one(idx_file):
        idx, f = idx_file
        md = os.path.join(OUT, pid, f"tlc_tv_{idx}")
        env = {"TRACE": f, "JAVA_TOOL_OPTIONS": TLC_ENV_TRACE}
        if constants_env:
            env.update(constants_env)
        out, info = tlc(trace_module, cfg, md, workers=1, timeout=timeout, env=env, heap="3g")
        res = {"file": f, "viols": [], "ok": False, "stuck_line": None, "events": 0, "raw_tail": out[-1500:]}
        for line in out.splitlines():
            if line.startswith('"VIOL ') or line.startswith('"KNOWN '):
                d = {"kind": "KNOWN" if line.startswith('"KNOWN') else "VIOL"}
                m = re.search(r'line=(\d+) run=(-?\d+)', line)
                if m:
                    d["line"] = int(m.group(1)); d["run"] = int(m.group(2))
                d["clauses"] = re.findall(r'C\d\d_[A-Za-z0-9_]+', line)
                res["viols"].append(d)
            elif line.startswith('"TRACE-OK'):
                res["ok"] = True
                m = re.search(r"events=(\d+)", line)
                res["events"] = int(m.group(1)) if m else 0
            elif line.startswith('"TRACE-STUCK'):
                m = re.search(r"line=(\d+)", line)
                res["stuck_line"] = int(m.group(1)) if m else 0
                res["stuck_raw"] = line[:300]
        if not res["ok"] and res["stuck_line"] is None:
            raise ToolError(f"trace validation of {f} produced no verdict:\n{out[-3000:]}")
        return res
    files = [f for f in files if os.path.getsize(f) > 0]
    with ThreadPoolExecutor(max_workers=jobs) as ex:
        return list(ex.map(one, enumerate(files)))


def cut_run(trace_file, line_no):
    """Returns (run_number, lines of the run containing 1-based line_no)."""
    with open(trace_file) as f:
        lines = f.read().splitlines()
    start = line_no - 1
    while start > 0 and '"ev":"Reset"' not in lines[start]:
        start -= 1
    end = line_no
    while end < len(lines) and '"ev":"Reset"' not in lines[end]:
        end += 1
    run = None
    try:
        run = json.loads(lines[start]).get("run")
    except Exception:
        pass
    return run, lines[start:end]


# ------------------------------------------------------------- known findings
def known_findings(pid):
    p = os.path.join(ROOT, "known_findings.json")
    if not os.path.exists(p):
        return []
    with open(p) as f:
        data = json.load(f)
    return [e for e in data.get("findings", []) if e.get("property") == pid and e.get("status") == "known"]


# ------------------------------------------------------------------ evidence
def repo_dirty():
    """Uncommitted changes in /repo (a seeded mutant, a reverted fix, work in progress)?"""
    try:
        p = subprocess.run(["git", "-C", "/repo", "status", "--porcelain", "--untracked-files=no"],
                           stdout=subprocess.PIPE, stderr=subprocess.DEVNULL, text=True, timeout=60)
        return p.returncode == 0 and p.stdout.strip() != ""
    except Exception:
        return False


def write_evidence(pid, tier, seed, level, coverage, assumptions, wall_s, violations):
    # Evidence describes the check run against /repo as committed.  A run against a modified working tree
    # (that is how seeded changes and reverted fixes are tried out) still gives its verdict, but must not
    # overwrite the record: seven such files were once committed by mistake (DESIGN.md, section 8).
    if repo_dirty():
        log(f"[evidence] /repo has uncommitted changes: evidence/{pid}.json left untouched")
        return
    os.makedirs(EVID, exist_ok=True)
    ev = {
        "property_id": pid, "tier": tier, "seed": seed, "level": level, "coverage": coverage,
        "assumptions": assumptions, "wall_s": round(wall_s, 1), "violations": violations,
    }
    with open(os.path.join(EVID, f"{pid}.json"), "w") as f:
        json.dump(ev, f, indent=1)


def finish(pid, violations, known_lines):
    """violations: list of (description, replay_path).  Prints the verdict lines, returns exit code."""
    for k in known_lines:
        log(f"KNOWN-FINDING: property={pid} {k}")
    if violations:
        seen = set()
        for desc, path in violations[:20]:
            log(f"VIOLATION property={pid} replay={path}")
            if desc not in seen:
                log(f"  {desc}")
                seen.add(desc)
        return 1
    log(f"OK property={pid}")
    return 0


def write_replay(pid, name, obj):
    d = outdir(pid)
    p = os.path.join(d, name)
    with open(p, "w") as f:
        json.dump(obj, f, indent=1)
    return p


def extract_replays(tlc_out, path, limit=None, seed=0):
    """Collects 'REPLAY {json}' lines printed by a Gen configuration, drops behaviours that are a
    proper prefix of another one, writes jsonl.  Returns number written."""
    reps = []
    for line in tlc_out.splitlines():
        if line.startswith('"REPLAY '):
            try:
                reps.append(json.loads(line)[7:])
            except Exception:
                continue
        elif line.startswith("REPLAY "):
            reps.append(line[7:].strip())
    uniq = sorted(set(reps))
    # prefix pruning on the action list text (canonical JSON from TLC)
    keep = []
    objs = []
    for s in uniq:
        try:
            objs.append(json.loads(s))
        except Exception:
            pass
    keyed = sorted(objs, key=lambda o: json.dumps(o.get("acts", o), sort_keys=True))
    texts = [json.dumps(o.get("acts", o), sort_keys=True)[:-1] for o in keyed]  # strip closing ]
    for i, o in enumerate(keyed):
        if i + 1 < len(keyed) and texts[i + 1].startswith(texts[i] + ",") and {k: v for k, v in o.items() if k != "acts"} == {k: v for k, v in keyed[i + 1].items() if k != "acts"}:
            continue
        keep.append(o)
    if limit and len(keep) > limit:
        rnd = random.Random(seed)
        keep = rnd.sample(keep, limit)
    with open(path, "w") as f:
        for o in keep:
            f.write(json.dumps(o) + "\n")
    return len(keep), len(uniq)


def recover_spec(trace_file, run_no):
    """The run specification (action list) that produced run `run_no`: the harness writes
    specs_<j>.jsonl next to trace_<j>.ndjson."""
    if run_no is None:
        return None
    sf = trace_file.replace("trace_", "specs_").replace(".ndjson", ".jsonl")
    try:
        with open(sf) as f:
            for line in f:
                o = json.loads(line)
                if o.get("run") == run_no:
                    return o.get("spec")
    except OSError:
        pass
    return None
