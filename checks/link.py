"""C02 / C05: RtpsLink.tla + Trace_RtpsLink.tla, `link` driver (real Writer <-> real Reader over a faulty network)."""
from pipeline import run_pipeline

TIERS = {
    "quick": dict(mc=[("MC_RtpsLink_q.cfg", 8), ("MC_RtpsLink_q_late.cfg", 8), ("MC_RtpsLink_q_rematch.cfg", 8),
                    ("MC_RtpsLink_q_burst.cfg", 8), ("MC_RtpsLink_q_key.cfg", 8)], replay_limit=6000, random=dict(runs=320, events=24)),
    "thorough": dict(mc=[("MC_RtpsLink_t.cfg", 12), ("MC_RtpsLink_t2.cfg", 12), ("MC_RtpsLink_q_late.cfg", 8), ("MC_RtpsLink_t_late.cfg", 12), ("MC_RtpsLink_q_rematch.cfg", 8),
                       ("MC_RtpsLink_q_burst.cfg", 8), ("MC_RtpsLink_q_key.cfg", 8)], replay_limit=60000, random=dict(runs=4000, events=40)),
}
ASSUME = [
    "state space bounded by the constants in spec/MC_RtpsLink_*.cfg (samples, fragments, fault budget, rounds)",
    "FIFO network per direction; faults = drop / duplicate (model) plus swap-with-next (random runs); timers fired by the harness in the order heartbeat, deliver, repair, deliver",
    "K = 3 rounds in the model, 4 in the validation of real runs (the property only says 'bounded'), plus one round per full window of 256 sequence numbers written (one ACKNACK names at most 256)",
    "an assembly buffer may be given up after 9 s (virtual clock) without a new fragment of its sample; never while fragments keep arriving",
    "writer TransientLocal reliable, reader reliable KeepAll with limits not exceeded; the reader does not request history, so samples written before the match (Pre) are owed a GAP, not data",
]


def run(pid, tier, seed, replay=None):
    extra = ()
    if pid == "C05":
        # fragments of several samples and writers interleaved in arbitrary orders, duplicated and
        # incomplete, on the reader alone (reader driver); clauses C05_* of ReaderAbs.tla
        import reader
        extra = (dict(driver="reader", model="RtpsReader.tla", trace_module="Trace_RtpsReader.tla",
                      trace_cfg="Trace_RtpsReader.cfg",
                      tiers={"quick": dict(mc=[], random=dict(runs=160, events=200)),
                             "thorough": dict(mc=[("MC_RtpsReader_t_two.cfg", 12)], replay_limit=40000, random=dict(runs=2000, events=400))}),)
    if pid == "C05" and replay is None:
        from common import tlc, outdir, ToolError, log
        import os
        out, info = tlc("Fragmentation.tla", "MC_Fragmentation.cfg", os.path.join(outdir(pid), "tlc_frag"), workers=4, timeout=600)
        if not info.get("ok"):
            log(out[-1500:]); raise ToolError("Fragmentation.tla: partition lemma failed")
        log("[mc] Fragmentation.tla: ranges partition the sample for fs 1..9, sizes up to 4*fs+3")
    extra_vh = None
    if replay is None:
        # time dimension of C05 (assembly buffers age on a slow link): FragAging.tla is model checked, the schedules it
        # explores are executed by the link driver together with the random runs (vh link random --extra)
        from common import tlc, outdir, ToolError, log, extract_replays
        import os
        out, info = tlc("FragAging.tla", "MC_FragAging.cfg", os.path.join(outdir(pid), "tlc_aging"), workers=4, timeout=600)
        if not info.get("ok"):
            log(out[-1500:]); raise ToolError("FragAging.tla: an assembly in steady progress is discarded in the model")
        ap = os.path.join(outdir(pid), "aging_replays.jsonl")
        n_age, _ = extract_replays(out, ap, limit=600 if tier == "quick" else 6000, seed=seed)
        log(f"[mc] FragAging.tla: {info['states']} distinct states, {n_age} slow-link schedules handed to the link driver")
        extra_vh = ["--extra", ap]
    return run_pipeline(pid, tier, seed, replay, extra_vh=extra_vh, driver="link", model="RtpsLink.tla",
                        trace_module="Trace_RtpsLink.tla", trace_cfg="Trace_RtpsLink.cfg",
                        tiers=TIERS, prefixes=(pid + "_",), assumptions=ASSUME, known_env=("KNOWN_S3",), extra_sources=extra)
