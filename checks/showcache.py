#!/usr/bin/env python3
import json,sys
r=json.load(open(sys.argv[1])); print(r.get('clauses'))
for ln in r['trace']:
    e=json.loads(ln)
    if e['ev']=='Arrive': print(' A id',e['id'],'w',e['w'],'sn',e['sn'],'k',e['k'],e['wire'])
    elif e['ev']=='Call': print(' CALL',e['form'],'max',e['max'],e['cond'],e['scope'],e['inst'],e['res'],[ (o['id'],'k%d'%o['k'],o['kind'],o['ss'],o['vs'],o['is'],o['dg']) for o in e['out']])
    else: print(' ',{k:v for k,v in e.items() if k!='spec'})
