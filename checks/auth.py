"""C19: Handshake.tla + HandshakeAbs.tla + Trace_Handshake.tla, `auth` driver (two real AuthenticationBuiltin
plugins, feature `security`, fixture identities under fixtures/auth)."""
import os
import pipeline
import common
from pipeline import run_pipeline

FX = os.path.join(common.ROOT, "fixtures", "auth")

TIERS = {
    # MC_Handshake_q: the code as it is (deviations S7/S13/S14 named), every attacker schedule with <= 3 attacker
    # deliveries, behaviours dumped for replay; _live: the same under fairness (liveness modulo named deviations);
    # _ideal: the same model with the three deviations repaired satisfies every clause (the judge is satisfiable).
    # MC_Handshake_guid_q/_t: either party announces a GUID differing from its certificate-bound one in any one byte.
    # (MC_Handshake_weak*.cfg are non-vacuity instances that are EXPECTED to violate Inv_NoViolation; run by hand, see NOTES.)
    "quick": dict(mc=[("MC_Handshake_q.cfg", 4), ("MC_Handshake_guid_q.cfg", 4), ("MC_Handshake_live.cfg", 4), ("MC_Handshake_ideal.cfg", 4)],
                  replay_limit=None, random=dict(runs=5500, events=8)),
    "thorough": dict(mc=[("MC_Handshake_t.cfg", 8), ("MC_Handshake_guid_t.cfg", 8), ("MC_Handshake_live.cfg", 4), ("MC_Handshake_ideal.cfg", 4)],
                     replay_limit=None, random=dict(runs=40000, events=14)),
}
ASSUME = [
    "two honest identities (EC P-256, ECDSA-SHA256) issued by the Identity CA shipped in examples/security_configuration_files; "
    "ECDH key agreement (the request always chooses it); one handshake per run, no plugin restart",
    "deliveries are dispatched to the plugin call that secure_discovery.rs makes in the receiver's discovery-level state; the "
    "related-message-identity filter of the stateless channel is plaintext and assumed forgeable (every injected message reaches the plugin)",
    "attacker: copies, replays from an earlier complete session of the same identities, reflections, every single-byte (one bit per byte "
    "in the quick tier, 4 bits per byte in the thorough tier) alteration of every field of the three messages, class-id swap, truncation, "
    "foreign-CA certificate (same subject name) with hashes / signature made consistent with the attacker's key, CA-issued insider "
    "certificate for the victim's GUID, unbound GUID in c.pdata; model: all schedules with <= 3 (quick) / 4 (thorough) attacker deliveries",
    "whether a replier answers a bad REQUEST is unconstrained (requests are unsigned; dh1 / challenge1 are outside hash_c1); "
    "ECDSA signature malleability (r, n-s) is not counted as an alteration",
    "presence of token properties: every delivery may also REMOVE properties. A clean message minus only properties whose inclusion "
    "DDS Security 1.1 Tables 49-51 leave to the sender (hash_c1, hash_c2, dh1 of reply/final, dh2 of final) is an equivalent copy: "
    "accepting it is allowed, refusing it is unconstrained; a bad (replayed, altered, forged) message stays bad whatever is removed from "
    "it; removing any other property is an alteration. Model: all subsets of {hash_c1, hash_c2} (thorough: + dh1, dh2) on every "
    "delivery; driver: every single-property removal, every subset of sender-optional properties on all 6 messages at the 3 points, "
    "symbolic / byte alterations with the hashes removed, random subsets on a third of the random deliveries",
    "announced GUID: either party (a CA-issued participant) may announce, in c.pdata and towards validate_remote_identity, a GUID that "
    "differs from the one validate_local_identity bound to its certificate in one byte (model: each of the 16 bytes, either party, "
    "with <= 1 (quick) / 2 (thorough) attacker deliveries; driver: every bit of every byte). DDS Security 1.1 Table 52 binds bytes 0..5 "
    "(48 bits): a difference there = 'GUID not bound to the presented certificate', the peer must never complete; a difference only in "
    "bytes 6..15 and everything the lying party itself reaches are unconstrained; the blocking clauses apply to runs in which both "
    "parties announce their bound GUID. Bits are chosen so that the order of the announced prefixes (the roles) is kept",
    "dispatch: besides the call secure_discovery.rs makes from its mirror of the handshake state, a token whose class id says Request "
    "may be handed to begin_handshake_reply in ANY state of either party (dispatch by message kind at the Authentication plugin API; "
    "secure_discovery's related-message filter is not relied upon). process_handshake after completion is NOT called (the handshake "
    "handle is returned after completion; whether a completed handshake survives such a call is not decided by the property statement)",
    "certificate validity period / revocation are not part of the property and not exercised",
]

# Deviations of the unchanged crate from C19, recognised by signature in HandshakeAbs.tla.  They are merged
# with known_findings.json (an entry there with the same id wins, e.g. status 'fixed' disables the exemption).
BUILTIN_KNOWN = [
    {"property": "C19", "id": "S7", "status": "known", "env": "KNOWN_S7",
     "clause": "C19_S7_genuine_message_refused_after_rejected_forgery",
     "what": "process_handshake swaps a dummy PendingRequestSend into the per-remote state and returns early on every validation "
             "error, dropping the DH key pair and challenges: one rejected (forged, altered, replayed, out-of-order) reply or final "
             "makes the plugin refuse the genuine message afterwards ('Unexpected handshake state: PendingRequestSend')"},
    {"property": "C19", "id": "S13", "status": "known", "env": "KNOWN_S13",
     "clause": "C19_S13_genuine_request_refused_after_answering_forged_request",
     "what": "a replier that answered a forged / altered / replayed request (requests are unsigned, dh1 and challenge1 are not "
             "covered by hash_c1, so it cannot tell) stays committed to that exchange; the genuine request is never accepted "
             "(no restart), the genuine handshake cannot complete"},
    {"property": "C19", "id": "S14", "status": "known", "env": "KNOWN_S14",
     "clause": "C19_S14_reply_built_on_altered_dh1_authenticated",
     "what": "the initiator verifies the reply signature over the dh1 echoed in the reply and never compares it with its own dh1: "
             "after dh1 was altered in the request it completes (CompletedWithFinalMessageSent, get_shared_secret succeeds) "
             "while the replier rejects the final message"},
]


_orig = common.known_findings


def _merged(pid):
    import json
    p = os.path.join(common.ROOT, "known_findings.json")
    ids_in_file = set()
    if os.path.exists(p):
        with open(p) as f:
            ids_in_file = {e.get("id") for e in json.load(f).get("findings", []) if e.get("property") == pid}
    return _orig(pid) + [e for e in BUILTIN_KNOWN if e["property"] == pid and e["id"] not in ids_in_file]


_lines = {}


def _cut_run(trace_file, line_no):
    """common.cut_run with the file kept in memory (most runs of this check print a KNOWN line)."""
    import json
    lines = _lines.get(trace_file)
    if lines is None:
        with open(trace_file) as f:
            lines = _lines[trace_file] = f.read().splitlines()
    start = line_no - 1
    while start > 0 and '"ev":"Reset"' not in lines[start]:
        start -= 1
    end = line_no
    while end < len(lines) and '"ev":"Reset"' not in lines[end]:
        end += 1
    run = None
    try:
        run = json.loads(lines[start]).get("run")
    except Exception:
        pass
    return run, lines[start:end]


def run(pid, tier, seed, replay=None):
    pipeline.known_findings = _merged
    pipeline.cut_run = _cut_run
    extra = ["--fx", FX, "--seed", seed, "--bits", 4 if tier == "thorough" else 1]
    return run_pipeline(pid, tier, seed, replay, driver="auth", model="Handshake.tla",
                        trace_module="Trace_Handshake.tla", trace_cfg="Trace_Handshake.cfg",
                        tiers=TIERS, prefixes=(pid + "_",), assumptions=ASSUME, security=True,
                        extra_vh=extra, known_env=("KNOWN_S7", "KNOWN_S13", "KNOWN_S14"))
