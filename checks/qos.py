"""C10: QosRxO.tla (RxO table as operator, TLC enumerates cases) + Trace_QosRxO.tla, `qos` driver."""
from pipeline import run_pipeline

TIERS = {
    "quick": dict(mc=[("MC_QosRxO.cfg", 4)], replay_limit=None, random=dict(runs=4000, events=1)),
    "thorough": dict(mc=[("MC_QosRxO.cfg", 4)], replay_limit=None, random=dict(runs=120000, events=1)),
}
ASSUME = [
    "policy values are classes (durations: zero, 1 ns, 1 s, infinite; ownership strengths 1 and 2); TLC enumerates per policy all pairs of values in the contexts {all others absent, all others compatible, exactly one other incompatible}; the random runs sample the full product",
    "DDS 1.4 section 2.2.3 RxO table as transcribed in spec/QosRxO.tla",
]
# the verdict must be taken on the QoS an endpoint announced LAST, also for a local endpoint created after discovery has
# run: Discovery.tla with late local endpoints and announcements that change QoS (clauses C10_* of DiscoveryAbs.tla)
DISC_SRC = dict(driver="disc", model="Discovery.tla", trace_module="Trace_Discovery.tla", trace_cfg="Trace_Discovery.cfg", env={"KNOWN_S8": "0"},
                tiers={"quick": dict(mc=[("MC_Discovery_q_late.cfg", 8)], replay_limit=3000, random=dict(runs=300, events=40)),
                       "thorough": dict(mc=[("MC_Discovery_t_late.cfg", 12)], replay_limit=30000, random=dict(runs=4000, events=60))})


def run(pid, tier, seed, replay=None):
    return run_pipeline(pid, tier, seed, replay, driver="qos", model="QosRxO.tla",
                        trace_module="Trace_QosRxO.tla", trace_cfg="Trace_QosRxO.cfg",
                        tiers=TIERS, prefixes=(pid + "_",), assumptions=ASSUME + ["discovery side: bounded by spec/MC_Discovery_*_late.cfg; an endpoint changes its QoS between announcements only while the local endpoint it concerns does not exist yet"],
                        extra_sources=(DISC_SRC,))
