"""C10: QosRxO.tla (RxO table as operator, TLC enumerates cases) + Trace_QosRxO.tla, `qos` driver."""
from pipeline import run_pipeline

TIERS = {
    "quick": dict(mc=[("MC_QosRxO.cfg", 4)], replay_limit=None, random=dict(runs=4000, events=1)),
    "thorough": dict(mc=[("MC_QosRxO.cfg", 4)], replay_limit=None, random=dict(runs=120000, events=1)),
}
ASSUME = [
    "policy values are classes (durations: zero, 1 ns, 1 s, infinite; ownership strengths 1 and 2); TLC enumerates per policy all pairs of values in the contexts {all others absent, all others compatible, exactly one other incompatible}; the random runs sample the full product",
    "DDS 1.4 section 2.2.3 RxO table as transcribed in spec/QosRxO.tla",
]


def run(pid, tier, seed, replay=None):
    return run_pipeline(pid, tier, seed, replay, driver="qos", model="QosRxO.tla",
                        trace_module="Trace_QosRxO.tla", trace_cfg="Trace_QosRxO.cfg",
                        tiers=TIERS, prefixes=(pid + "_",), assumptions=ASSUME)
