"""Generic check pipeline shared by the protocol properties:
   1. TLC model-checks the implementation-shaped module (invariants + behaviour dump)
   2. the dumped behaviours are replayed into the real code by a harness driver
   3. seeded random runs far beyond the exhaustive bound are executed by the same driver
   4. every real execution is validated by TLC against the trace specification
   verdict = no clause of this property violated on any real execution (and model checking clean)."""
import glob, json, os, time
from common import *


def run_pipeline(pid, tier, seed, replay, *, driver, model, trace_module, trace_cfg, tiers, prefixes,
                 assumptions, security=False, extra_vh=None, known_env=(), extra_sources=(), extra_coverage=None):
    t0 = time.time()
    d = clean_dir(outdir(pid, "work"))
    build_harness(security)
    cfg = tiers[tier]
    states = transitions = 0
    mc_detail, all_out = [], []
    extra_vh = extra_vh or []
    if replay is None:
        for c, workers in cfg.get("mc", []):
            out, info = tlc(model, c, os.path.join(d, "tlc_mc"), workers=workers, timeout=3000)
            if not info.get("ok"):
                log(out[-1500:])
                raise ToolError(f"model checking {c} did not complete cleanly: {info}")
            states += info["states"]; transitions += info["transitions"]
            mc_detail.append({"cfg": c, **{k: info.get(k) for k in ("states", "transitions", "depth", "wall_s")}})
            all_out.append(out)
            log(f"[mc] {c}: {info['states']} distinct states, {info['transitions']} transitions, depth {info.get('depth')}, {info['wall_s']}s")
        rep_stats = {"runs": 0, "events": 0}
        if cfg.get("mc"):
            rp = os.path.join(d, "replays.jsonl")
            n_rep, n_raw = extract_replays("\n".join(all_out), rp, limit=cfg.get("replay_limit"), seed=seed)
            log(f"[gen] {n_raw} behaviours dumped by TLC, {n_rep} kept after prefix pruning / sampling")
            if n_rep:
                p = vh([driver, "replay", "--in", rp, "--jobs", cfg.get("jobs", 8), "--out", os.path.join(d, "rep")] + extra_vh, security=security)
                rep_stats = json.loads(p.stdout.strip().splitlines()[-1])
        r = cfg["random"]
        p = vh([driver, "random", "--seed", seed, "--runs", r["runs"], "--events", r["events"], "--jobs", cfg.get("jobs", 8), "--out", os.path.join(d, "rnd")] + extra_vh, security=security)
        rnd_stats = json.loads(p.stdout.strip().splitlines()[-1])
    else:
        with open(replay) as f:
            rj = json.load(f)
        rp = os.path.join(d, "replays.jsonl")
        with open(rp, "w") as f:
            f.write(json.dumps(rj["spec"]) + "\n")
        replay_src = extra_sources[rj["source"]] if rj.get("source") is not None and rj["source"] < len(extra_sources) else None
        if replay_src is None:
            p = vh([driver, "replay", "--in", rp, "--jobs", 1, "--out", os.path.join(d, "rep")] + extra_vh, security=security)
        else:
            # the run came from an additional source: its own driver and trace specification
            p = vh([replay_src["driver"], "replay", "--in", rp, "--jobs", 1, "--out", os.path.join(d, f"src{rj['source']}", "rep")])
        rep_stats = json.loads(p.stdout.strip().splitlines()[-1])
        rnd_stats = {"runs": 0, "events": 0}
    files = sorted(glob.glob(os.path.join(d, "rep", "trace_*.ndjson")) + glob.glob(os.path.join(d, "rnd", "trace_*.ndjson")))
    # additional sources (another driver / model whose traces also speak about this property)
    extra_results = []
    if replay is not None and replay_src is not None:
        f2 = sorted(glob.glob(os.path.join(d, f"src{rj['source']}", "rep", "trace_*.ndjson")))
        extra_results += validate_traces(replay_src["trace_module"], replay_src["trace_cfg"], f2, pid, jobs=1, constants_env=replay_src.get("env"))
    if replay is None:
        for k, src in enumerate(extra_sources):
            scfg = src["tiers"][tier]
            outs = []
            for c, workers in scfg.get("mc", []):
                o, info = tlc(src["model"], c, os.path.join(d, "tlc_mc"), workers=workers, timeout=3000)
                if not info.get("ok"):
                    log(o[-1500:]); raise ToolError(f"model checking {c} did not complete cleanly: {info}")
                states += info["states"]; transitions += info["transitions"]
                mc_detail.append({"cfg": c, **{kk: info.get(kk) for kk in ("states", "transitions", "depth", "wall_s")}})
                outs.append(o)
                log(f"[mc] {c}: {info['states']} distinct states, {info['transitions']} transitions")
            sd = os.path.join(d, f"src{k}")
            if outs:
                rp2 = os.path.join(d, f"replays_src{k}.jsonl")
                n2, _ = extract_replays("\n".join(outs), rp2, limit=scfg.get("replay_limit"), seed=seed)
                if n2:
                    p = vh([src["driver"], "replay", "--in", rp2, "--jobs", 8, "--out", os.path.join(sd, "rep")])
                    st = json.loads(p.stdout.strip().splitlines()[-1]); rep_stats["runs"] += st["runs"]
            r2 = scfg["random"]
            p = vh([src["driver"], src.get("random_mode", "random"), "--seed", seed, "--runs", r2["runs"], "--events", r2["events"], "--jobs", 8, "--out", os.path.join(sd, "rnd")])
            st = json.loads(p.stdout.strip().splitlines()[-1]); rnd_stats["runs"] += st["runs"]
            f2 = sorted(glob.glob(os.path.join(sd, "*", "trace_*.ndjson")))
            extra_results += validate_traces(src["trace_module"], src["trace_cfg"], f2, pid, jobs=8, constants_env=src.get("env"))
    kf = known_findings(pid)
    cenv = {name: "0" for name in known_env}
    for e in kf:
        if e.get("env"):
            cenv[e["env"]] = "1"
    results = validate_traces(trace_module, trace_cfg, files, pid, jobs=8, constants_env=cenv)
    results = results + extra_results
    violations, known_lines, other = [], [], {}
    events = 0
    def source_of(path):
        return next((k for k in range(len(extra_sources)) if f"{os.sep}src{k}{os.sep}" in path), None)
    for res in results:
        events += res["events"]
        if res["stuck_line"] is not None:
            run_no, lines = cut_run(res["file"], res["stuck_line"])
            path = write_replay(pid, f"replay-stuck-{len(violations)}.json",
                                {"property": pid, "why": "no action of the specification explains this event", "source": source_of(res["file"]), "spec": recover_spec(res["file"], run_no), "trace": lines})
            violations.append((f"event {res['stuck_line']} of {os.path.relpath(res['file'], ROOT)} is not a behaviour of the spec: {res.get('stuck_raw','')[:200]}", path))
        for v in res["viols"]:
            mine = [c for c in v.get("clauses", []) if c.startswith(prefixes)]
            for c in v.get("clauses", []):
                if not c.startswith(prefixes):
                    other[c] = other.get(c, 0) + 1
            if not mine:
                continue
            run_no, lines = cut_run(res["file"], v["line"])
            if v.get("kind") == "KNOWN":
                for c in mine:
                    k = next((e for e in kf if e.get("clause") == c), None)
                    if k is not None:
                        msg = f"{k['id']}: {k['what']}"
                        if msg not in known_lines:
                            known_lines.append(msg)
                    else:
                        violations.append((f"deviation {c} observed but not listed in known_findings.json", write_replay(pid, f"replay-{len(violations)}.json", {"property": pid, "clauses": mine, "spec": recover_spec(res['file'], run_no), "trace": lines})))
                continue
            try:
                with open(res["file"]) as tf_:
                    bad_event = json.loads(tf_.read().splitlines()[v["line"] - 1])
            except Exception:
                bad_event = None
            path = write_replay(pid, f"replay-{len(violations)}.json",
                                {"property": pid, "clauses": mine, "violating_event": bad_event, "source": source_of(res["file"]), "spec": recover_spec(res["file"], run_no), "trace": lines})
            violations.append((f"clauses {mine} at event {v['line']} (run {run_no}) of {os.path.relpath(res['file'], ROOT)}", path))
    runs_total = rep_stats["runs"] + rnd_stats["runs"]
    sample = None
    if files:
        _, sample = cut_run(files[0], 2)
    coverage = {
        "states": states, "transitions": transitions,
        "traces_validated_against_impl": max(0, runs_total - len(violations)),
        "samples": [{"trace_of_one_real_run": [json.loads(x) for x in (sample or [])[:12]]}],
        "model_checking": mc_detail,
        "tlc_behaviours_replayed_into_impl": rep_stats["runs"],
        "random_runs": rnd_stats["runs"],
        "impl_events_validated": events,
        "exhaustive": bool(mc_detail),
        "clauses_of_other_properties_seen": other,
    }
    if extra_coverage is not None and replay is None:
        coverage.update(extra_coverage(d))
    if replay is None:
        level = "model_checking" if states > 0 else "exploration"
        if level == "exploration":
            coverage.update({"evaluations": runs_total, "distinct_nontrivial": runs_total,
                             "rule": "each run is a distinct seeded random action sequence executed on the real code"})
        write_evidence(pid, tier, seed, level, coverage, assumptions, time.time() - t0, len(violations))
    return finish(pid, violations, known_lines)
