"""C01 / C03: RtpsReader.tla + ReaderAbs.tla + Trace_RtpsReader.tla, `reader` driver."""
from pipeline import run_pipeline

TIERS = {
    "quick": dict(mc=[("MC_RtpsReader_q_rel.cfg", 8), ("MC_RtpsReader_q_be.cfg", 8)], replay_limit=6000,
                  random=dict(runs=240, events=200)),
    "thorough": dict(mc=[("MC_RtpsReader_t_rel.cfg", 12), ("MC_RtpsReader_t_be.cfg", 12), ("MC_RtpsReader_t_two.cfg", 12)],
                     replay_limit=150000, random=dict(runs=3000, events=400)),
}
ASSUME = [
    "state space bounded by the constants in spec/MC_RtpsReader_*.cfg (see model_checking[].cfg)",
    "the reader's own limits are not exceeded in the driver (KeepAll, max_samples 1e6)",
    "reception timestamps of the real TopicCache are strictly increasing (wall clock)",
    "the independent wire codec harness/src/wire.rs encodes/decodes RTPS submessages per RTPS 2.5 section 9.4.5",
]


def run(pid, tier, seed, replay=None):
    return run_pipeline(pid, tier, seed, replay, driver="reader", model="RtpsReader.tla",
                        trace_module="Trace_RtpsReader.tla", trace_cfg="Trace_RtpsReader.cfg",
                        tiers=TIERS, prefixes=(pid + "_",), assumptions=ASSUME)
