"""C01 / C03 (and the reader-side half of C05): RtpsReader.tla + ReaderAbs.tla + Trace_RtpsReader.tla,
`reader` driver."""
import glob, json, os, time
from common import *

CLAUSE_PREFIX = {"C01": ("C01_",), "C03": ("C03_",)}

TIERS = {
    "quick": dict(mc=[("MC_RtpsReader_q_rel.cfg", 8), ("MC_RtpsReader_q_be.cfg", 8)], replay_limit=6000,
                  random=dict(runs=240, events=200)),
    "thorough": dict(mc=[("MC_RtpsReader_t_rel.cfg", 12), ("MC_RtpsReader_t_be.cfg", 12), ("MC_RtpsReader_t_two.cfg", 12)],
                     replay_limit=150000, random=dict(runs=3000, events=400)),
}


def run(pid, tier, seed, replay=None):
    t0 = time.time()
    d = clean_dir(outdir(pid, "work"))
    build_harness()
    cfg = TIERS[tier]
    states = transitions = 0
    mc_detail = []
    all_out = []
    if replay is None:
        for c, workers in cfg["mc"]:
            out, info = tlc("RtpsReader.tla", c, os.path.join(d, "tlc_mc"), workers=workers, timeout=3000)
            if not info.get("ok"):
                log(out[-1500:])
                raise ToolError(f"model checking {c} did not complete cleanly: {info}")
            states += info["states"]
            transitions += info["transitions"]
            mc_detail.append({"cfg": c, **{k: info[k] for k in ("states", "transitions", "depth", "wall_s")}})
            all_out.append(out)
            log(f"[mc] {c}: {info['states']} distinct states, {info['transitions']} transitions, depth {info.get('depth')}, {info['wall_s']}s")
        rp = os.path.join(d, "replays.jsonl")
        n_rep, n_raw = extract_replays("\n".join(all_out), rp, limit=cfg["replay_limit"], seed=seed)
        log(f"[gen] {n_raw} behaviours dumped by TLC, {n_rep} kept after prefix pruning / sampling")
        p = vh(["reader", "replay", "--in", rp, "--jobs", 8, "--out", os.path.join(d, "rep")])
        rep_stats = json.loads(p.stdout.strip().splitlines()[-1])
        r = cfg["random"]
        p = vh(["reader", "random", "--seed", seed, "--runs", r["runs"], "--events", r["events"], "--jobs", 8, "--out", os.path.join(d, "rnd")])
        rnd_stats = json.loads(p.stdout.strip().splitlines()[-1])
    else:
        with open(replay) as f:
            rj = json.load(f)
        rp = os.path.join(d, "replays.jsonl")
        with open(rp, "w") as f:
            f.write(json.dumps(rj["spec"]) + "\n")
        p = vh(["reader", "replay", "--in", rp, "--jobs", 1, "--out", os.path.join(d, "rep")])
        rep_stats = json.loads(p.stdout.strip().splitlines()[-1])
        rnd_stats = {"runs": 0, "events": 0}
        n_rep = 1
    files = sorted(glob.glob(os.path.join(d, "rep", "trace_*.ndjson")) + glob.glob(os.path.join(d, "rnd", "trace_*.ndjson")))
    results = validate_traces("Trace_RtpsReader.tla", "Trace_RtpsReader.cfg", files, pid, jobs=8)
    violations = []
    other_clauses = {}
    events = 0
    for res in results:
        events += res["events"]
        if res["stuck_line"] is not None:
            run_no, lines = cut_run(res["file"], res["stuck_line"])
            path = write_replay(pid, f"replay-stuck-{os.path.basename(res['file'])}.json",
                                {"property": pid, "why": "no action of the specification explains this event", "line": res["stuck_line"], "trace": lines})
            violations.append((f"trace line {res['stuck_line']} of {res['file']} is not a behaviour of the spec: {res.get('stuck_raw','')[:300]}", path))
        for v in res["viols"]:
            mine = [c for c in v.get("clauses", []) if c.startswith(CLAUSE_PREFIX[pid])]
            for c in v.get("clauses", []):
                if not c.startswith(CLAUSE_PREFIX[pid]):
                    other_clauses[c] = other_clauses.get(c, 0) + 1
            if mine:
                run_no, lines = cut_run(res["file"], v["line"])
                spec = recover_spec(res["file"], run_no)
                path = write_replay(pid, f"replay-{len(violations)}.json",
                                    {"property": pid, "clauses": mine, "line_in_run": None, "spec": spec, "trace": lines})
                violations.append((f"clauses {mine} at event {v['line']} (run {run_no}) of {os.path.basename(res['file'])}", path))
    runs_total = rep_stats["runs"] + rnd_stats["runs"]
    sample = None
    if files:
        _, sample = cut_run(files[0], 2)
    coverage = {
        "states": states, "transitions": transitions,
        "traces_validated_against_impl": runs_total if not violations else runs_total - len(violations),
        "samples": [{"trace_of_one_real_run": [json.loads(x) for x in (sample or [])[:14]]}],
        "model_checking": mc_detail,
        "tlc_behaviours_replayed_into_impl": rep_stats["runs"],
        "random_runs": rnd_stats["runs"],
        "impl_events_validated": events,
        "exhaustive": True,
        "clauses_of_other_properties_seen": other_clauses,
    }
    assumptions = [
        "state space bounded by the constants in spec/MC_RtpsReader_*.cfg (see model_checking[].cfg)",
        "the reader's own limits are not exceeded in the driver (KeepAll, max_samples 1e6)",
        "reception timestamps of the real TopicCache are strictly increasing (wall clock, >=1us apart)",
        "the independent wire codec harness/src/wire.rs encodes/decodes RTPS submessages per RTPS 2.5 section 9.4.5",
    ]
    if replay is None:
        write_evidence(pid, tier, seed, "model_checking", coverage, assumptions, time.time() - t0, len(violations))
    return finish(pid, violations, [])


