"""C07: System.tla (discovery plane of two / three participants: every creation order, loss of any announcement,
deletion, silence longer than the lease; safety + liveness under fair delivery) + Trace_System.tla, `system` driver
(real DomainParticipants in one process, public API only, all traffic through hook H2 with seeded loss)."""
from pipeline import run_pipeline

LIVE = [("MC_System_live_del.cfg", 4), ("MC_System_live_late.cfg", 4), ("MC_System_live_blackout.cfg", 4), ("MC_System_live_post.cfg", 4)]
TIERS = {
    "quick": dict(mc=[("MC_System_q.cfg", 8), ("MC_System_post.cfg", 8)] + LIVE, replay_limit=16, jobs=16, random=dict(runs=8, events=1)),
    "thorough": dict(mc=[("MC_System_t.cfg", 12), ("MC_System_post.cfg", 8)] + LIVE, replay_limit=160, jobs=16, random=dict(runs=64, events=1)),
}
ASSUME = [
    "both participants live in one process; their datagrams are forwarded over loopback by the cfg-gated send hook (multicast fanned out to participant ids 0..4), so discovery does not depend on multicast routing",
    "bounds: 30 s for a match or an unmatch to be observed (SPDP period 2 s, lease 10 s, clean-up period 2 s), 20 s for delivery after the loss window has closed",
    "loss is applied per datagram with a seeded rate of at most 20 % while entities are created and samples written; delivery is judged in the loss-free suffix",
    "samples written before both sides reported the match are not used for the completeness clause; history for the late joiner is everything written before it was created",
    "security-enabled participants are not exercised by this driver (the protection kinds are covered by C16-C18 at the plugin boundary)",
]


# The late-joiner clause at the writer ("a Volatile one receives only later samples"): every interleaving of write /
# match (reader requesting TransientLocal or not) / ACKNACK / repair of the implementation-shaped writer model, its
# behaviours replayed on the real Writer, plus random runs; clause C07_history_sent_to_reader_that_did_not_request_it
WRITER_SRC = dict(driver="writer", model="RtpsWriter.tla", trace_module="Trace_RtpsWriter.tla", trace_cfg="Trace_RtpsWriter.cfg",
                  tiers={"quick": dict(mc=[("MC_RtpsWriter_q_all.cfg", 8), ("MC_RtpsWriter_q_vol.cfg", 8)], replay_limit=3000, random=dict(runs=120, events=120)),
                         "thorough": dict(mc=[("MC_RtpsWriter_t_all.cfg", 12), ("MC_RtpsWriter_t_vol.cfg", 12)], replay_limit=40000, random=dict(runs=1500, events=300))})


# "every sample is delivered, whatever was lost" rests on the reader asking EVERY matched writer for what it misses.  Several
# writers per reader with independent heartbeat counters and losses are cheap in the reader driver and expensive between real
# participants, so its random runs are a source of this check too, and the clause that says "a missing sample was not asked
# for" counts here under its own name.
READER_SRC = dict(driver="reader", model="RtpsReader.tla", trace_module="Trace_RtpsReader.tla", trace_cfg="Trace_RtpsReader.cfg",
                  tiers={"quick": dict(mc=[], random=dict(runs=240, events=200)),
                         "thorough": dict(mc=[], random=dict(runs=3000, events=400))})
# ... and so does, from the writer source, "a GAP declared a sample irrelevant that the reader is owed" (whether the system
# driver sees the sample go missing depends on whether the GAP overtakes it, i.e. on thread timing)
DELIVERY_CLAUSES = ("C03_lowest_missing_not_requested", "C04_gap_for_available_sample")


def run(pid, tier, seed, replay=None):
    return run_pipeline(pid, tier, seed, replay, driver="system", model="System.tla",
                        trace_module="Trace_System.tla", trace_cfg="Trace_System.cfg",
                        tiers=TIERS, prefixes=(pid + "_",) + DELIVERY_CLAUSES, assumptions=ASSUME, known_env=("KNOWN_S16", "KNOWN_S3"), extra_sources=(WRITER_SRC, READER_SRC))
