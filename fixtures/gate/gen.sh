#!/bin/bash
# Generates and signs the governance / permissions fixtures of the gate check (C17).
# Run ONCE by hand; the signed *.p7s files are committed. Never run at check time.
# Needs the permissions CA key + password shipped with the crate's examples.
set -e
EX=${EX:-/tmp/ag_gate/repo/examples/security_configuration_files}
OPENSSL=${OPENSSL:-/root/miniconda/bin/openssl}
cd "$(dirname "$0")"
topic_rule() { # name metadata_kind data_kind
cat <<R
                <topic_rule>
                    <topic_expression>$1</topic_expression>
                    <enable_discovery_protection>false</enable_discovery_protection>
                    <enable_liveliness_protection>false</enable_liveliness_protection>
                    <enable_read_access_control>false</enable_read_access_control>
                    <enable_write_access_control>false</enable_write_access_control>
                    <metadata_protection_kind>$2</metadata_protection_kind>
                    <data_protection_kind>$3</data_protection_kind>
                </topic_rule>
R
}
gov() { # file rtps_kind [discovery_kind liveliness_kind]   (default ENCRYPT ENCRYPT)
cat > $1_unsigned.xml <<G
<?xml version="1.0" encoding="UTF-8"?>
<dds xmlns:xsi="http://www.w3.org/2001/XMLSchema-instance"
xsi:noNamespaceSchemaLocation="http://www.omg.org/spec/DDS-SECURITY/20170901/omg_shared_ca_governance.xsd">
    <domain_access_rules>
        <domain_rule>
            <domains>
                <id_range>
                    <min>0</min>
                    <max>100</max>
                </id_range>
            </domains>
            <allow_unauthenticated_participants>false</allow_unauthenticated_participants>
            <enable_join_access_control>true</enable_join_access_control>
            <discovery_protection_kind>${3:-ENCRYPT}</discovery_protection_kind>
            <liveliness_protection_kind>${4:-ENCRYPT}</liveliness_protection_kind>
            <rtps_protection_kind>$2</rtps_protection_kind>
            <topic_access_rules>
$(topic_rule T_NN NONE NONE)
$(topic_rule T_EN ENCRYPT NONE)
$(topic_rule T_NE NONE ENCRYPT)
$(topic_rule T_EE ENCRYPT ENCRYPT)
$(topic_rule T_SN SIGN NONE)
$(topic_rule T_NS NONE SIGN)
            </topic_access_rules>
        </domain_rule>
    </domain_access_rules>
</dds>
G
$OPENSSL smime -sign -in $1_unsigned.xml -text -out $1.p7s -signer $EX/permissions_ca.cert.pem -inkey $EX/permissions_ca_private_key.pem -passin file:$EX/password
}
kind() { case $1 in N) echo NONE;; S) echo SIGN;; E) echo ENCRYPT;; esac; }
# Strengthening round 3: domain-level discovery / liveliness protection kinds (they decide the submessage protection of
# the builtin secure endpoints DCPSParticipantSecure / DCPSPublicationsSecure / DCPSSubscriptionsSecure resp.
# DCPSParticipantMessageSecure): governance_<rtps><discovery><liveliness>.p7s, letters N S E. The combination
# discovery = liveliness = ENCRYPT is the one of the three documents above.  ONLY=new ./gen.sh makes just these.
for r in N E; do for d in N S E; do for l in N S E; do
  if [ $d$l != EE ]; then gov governance_$r$d$l $(kind $r) $(kind $d) $(kind $l); fi
done; done; done
[ "$ONLY" = new ] && exit 0
gov governance_rtpsN NONE
gov governance_rtpsS SIGN
gov governance_rtpsE ENCRYPT
cat > permissions_unsigned.xml <<P
<?xml version="1.0" encoding="UTF-8"?>
<dds xmlns:xsi="http://www.w3.org/2001/XMLSchema-instance"
    xsi:noNamespaceSchemaLocation="http://www.omg.org/spec/DDS-Security/20170901/omg_shared_ca_permissions.xsd">
    <permissions>
        <grant name="Participant1GatePermission">
            <subject_name>CN=participant1_common_name,O=Example Organization</subject_name>
            <validity>
                <not_before>2023-01-01T00:00:00</not_before>
                <not_after>9999-01-01T00:00:00</not_after>
            </validity>
            <allow_rule>
                <domains>
                    <id>0</id>
                </domains>
                <publish>
                    <topics>
                        <topic>T_*</topic>
                    </topics>
                </publish>
                <subscribe>
                    <topics>
                        <topic>T_*</topic>
                    </topics>
                </subscribe>
            </allow_rule>
            <default>DENY</default>
        </grant>
    </permissions>
</dds>
P
$OPENSSL smime -sign -in permissions_unsigned.xml -text -out permissions.p7s -signer $EX/permissions_ca.cert.pem -inkey $EX/permissions_ca_private_key.pem -passin file:$EX/password
